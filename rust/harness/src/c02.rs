//! C02: filter_permitted / DeviceSession::prepare_response (default impl) and wire-level responses.
use crate::sess::{self, Sim};
use crate::world::{self, Pki};
use crate::Ctx;
use ciborium::Value;
use isomdl::cbor;
use isomdl::definitions::device_key::cose_key::{CoseKey, OKPCurve};
use isomdl::definitions::device_request::ItemsRequest;
use isomdl::definitions::device_signed::DeviceAuthType;
use isomdl::definitions::helpers::{ByteStr, NonEmptyMap, Tag24};
use isomdl::definitions::x509::trust_anchor::TrustAnchorRegistry;
use isomdl::definitions::{DeviceResponse, DigestAlgorithm, DigestId, IssuerSignedItem, SessionData, SessionTranscript180135};
use isomdl::presentation::device::{filter_permitted, DeviceSession, Document, Documents, PermittedItems, PreparedDeviceResponse};
use rand::Rng;
use std::collections::BTreeMap;

struct Holder { docs: Documents, transcript: SessionTranscript180135 }
impl DeviceSession for Holder {
    type ST = SessionTranscript180135;
    fn documents(&self) -> &Documents { &self.docs }
    fn session_transcript(&self) -> Self::ST { self.transcript.clone() }
    fn device_auth_type(&self) -> DeviceAuthType { DeviceAuthType::Sign1 }
}

fn dname(i: usize) -> String { format!("d{i}") }
fn nname(i: usize) -> String { format!("n{i}") }
/// element identifiers: some of them are age attestations (`age_over_NN`, boolean values) - identifier 4 (`age_over_19`) is
/// never held by the generators but often requested while its neighbours 18 and 21 are held
const AGE_NAMES: [(usize, &str); 4] = [(1, "age_over_18"), (3, "age_over_21"), (4, "age_over_19"), (5, "age_over_65")];
fn ename(i: usize) -> String { AGE_NAMES.iter().find(|(k, _)| *k == i).map(|(_, n)| n.to_string()).unwrap_or_else(|| format!("e{i}")) }
fn idx(s: &str) -> usize { AGE_NAMES.iter().find(|(_, n)| *n == s).map(|(k, _)| *k).unwrap_or_else(|| s[1..].parse().unwrap_or(99)) }

/// abstract case: held[d] = (can_sign, ns -> elems), request = list of (d, ns -> elems), permitted = d -> ns -> vec elems
struct Case { held: BTreeMap<usize, (bool, BTreeMap<usize, Vec<usize>>)>, req: Vec<(usize, BTreeMap<usize, Vec<usize>>)>, perm: BTreeMap<usize, BTreeMap<usize, Vec<usize>>> }

fn item_handle(d: usize, ns: usize, e: usize) -> usize { d * 10000 + ns * 100 + e }

fn make_item(d: usize, ns: usize, e: usize) -> Tag24<IssuerSignedItem> {
    let h = item_handle(d, ns, e);
    // digestIDs are unique within a namespace only: in every second document the namespaces reuse each other's ids
    let did = if d % 2 == 1 { e } else { h };
    // the handle travels in `random`; the value is a boolean for age attestations (true up to 21, false above: a request for 19 has the held 21 as its nearest attestation) and the handle otherwise
    let mut random = (h as u64).to_be_bytes().to_vec(); random.extend_from_slice(&[7u8; 8]);
    let value = match ename(e).strip_prefix("age_over_").and_then(|n| n.parse::<u32>().ok()) { Some(n) => Value::Bool(n <= 21), None => Value::Integer((h as i64).into()) };
    Tag24::new(IssuerSignedItem { digest_id: DigestId::new(did as i32), random: ByteStr::from(random), element_identifier: ename(e), element_value: value }).unwrap()
}
fn handle_of(t: &Tag24<IssuerSignedItem>) -> String {
    // the handle is recoverable only if the item is byte-identical to a held one
    let it = t.as_ref();
    let r: &[u8] = it.random.as_ref();
    let h: i128 = if r.len() == 16 { u64::from_be_bytes(r[..8].try_into().unwrap()) as i128 } else { -1 };
    let (d, ns, e) = ((h / 10000) as usize, ((h / 100) % 100) as usize, (h % 100) as usize);
    if h >= 0 && make_item(d, ns, e).inner_bytes == t.inner_bytes { h.to_string() } else { "999999".into() }
}

fn fmt_nss(m: &BTreeMap<usize, Vec<usize>>) -> String {
    m.iter().map(|(ns, es)| format!("{}={}", ns, es.iter().map(|e| e.to_string()).collect::<Vec<_>>().join("."))).collect::<Vec<_>>().join(";")
}
fn fmt_docs(v: &[(usize, BTreeMap<usize, Vec<usize>>)]) -> String {
    if v.is_empty() { return "-".into(); }
    v.iter().map(|(d, nss)| format!("{}:{}", d, fmt_nss(nss))).collect::<Vec<_>>().join("|")
}
fn fmt_held(c: &Case) -> String {
    if c.held.is_empty() { return "-".into(); }
    c.held.iter().map(|(d, (cs, nss))| format!("{}:{}:{}", d, if *cs { 1 } else { 0 },
        nss.iter().map(|(ns, es)| format!("{}={}", ns, es.iter().map(|e| format!("{}~{}", e, item_handle(*d, *ns, *e))).collect::<Vec<_>>().join("."))).collect::<Vec<_>>().join(";"))).collect::<Vec<_>>().join("|")
}

fn build_docs(pki: &Pki, template: &Document, c: &Case) -> Option<Documents> {
    let _ = pki;
    let mut out: Option<Documents> = None;
    for (d, (can_sign, nss)) in &c.held {
        let mut doc = template.clone();
        if !can_sign { doc.mso.device_key_info.device_key = CoseKey::OKP { crv: OKPCurve::X25519, x: vec![1; 32] }; }
        let mut ns_map: Option<NonEmptyMap<String, NonEmptyMap<String, Tag24<IssuerSignedItem>>>> = None;
        for (ns, es) in nss {
            let mut em: Option<NonEmptyMap<String, Tag24<IssuerSignedItem>>> = None;
            for e in es { match em.as_mut() { None => em = Some(NonEmptyMap::new(ename(*e), make_item(*d, *ns, *e))), Some(m) => { m.insert(ename(*e), make_item(*d, *ns, *e)); } } }
            if let Some(em) = em { match ns_map.as_mut() { None => ns_map = Some(NonEmptyMap::new(nname(*ns), em)), Some(m) => { m.insert(nname(*ns), em); } } }
        }
        let Some(ns_map) = ns_map else { continue };
        doc.namespaces = ns_map;
        match out.as_mut() { None => out = Some(NonEmptyMap::new(dname(*d), doc)), Some(m) => { m.insert(dname(*d), doc); } }
    }
    out
}

fn to_requests(c: &Case) -> Vec<ItemsRequest> {
    c.req.iter().filter_map(|(d, nss)| {
        let mut nm: Option<isomdl::definitions::device_request::Namespaces> = None;
        for (ns, es) in nss {
            let mut em: Option<isomdl::definitions::device_request::DataElements> = None;
            for e in es { match em.as_mut() { None => em = Some(NonEmptyMap::new(ename(*e), false)), Some(m) => { m.insert(ename(*e), true); } } }
            if let Some(em) = em { match nm.as_mut() { None => nm = Some(NonEmptyMap::new(nname(*ns), em)), Some(m) => { m.insert(nname(*ns), em); } } }
        }
        nm.map(|n| ItemsRequest { doc_type: dname(*d), namespaces: n, request_info: None })
    }).collect()
}
fn to_permitted(c: &Case) -> PermittedItems {
    c.perm.iter().map(|(d, nss)| (dname(*d), nss.iter().map(|(ns, es)| (nname(*ns), es.iter().map(|e| ename(*e)).collect())).collect())).collect()
}

/// canonical rendering of a PreparedDeviceResponse / DeviceResponse in the driver's syntax
fn render(docs: Vec<(String, Vec<(String, Vec<Tag24<IssuerSignedItem>>)>, Vec<(String, Vec<String>)>)>, doc_errs: Vec<String>) -> (String, String, String, String) {
    let prepared = docs.iter().map(|(d, dis, errs)| format!("{}:{}:{}", idx(d),
        dis.iter().map(|(ns, its)| format!("{}={}", idx(ns), its.iter().map(handle_of).collect::<Vec<_>>().join("."))).collect::<Vec<_>>().join(";"),
        errs.iter().map(|(ns, es)| format!("{}={}", idx(ns), { let mut v: Vec<usize> = es.iter().map(|e| idx(e)).collect(); v.sort(); v.iter().map(|e| e.to_string()).collect::<Vec<_>>().join(".") })).collect::<Vec<_>>().join(";"))).collect::<Vec<_>>().join("|");
    let out = docs.iter().map(|(d, dis, _)| format!("{}:{}", idx(d), dis.iter().map(|(ns, its)| format!("{}={}", idx(ns),
        its.iter().map(|t| format!("{}~{}", idx(&t.as_ref().element_identifier), handle_of(t))).collect::<Vec<_>>().join("."))).collect::<Vec<_>>().join(";"))).collect::<Vec<_>>().join("|");
    let errs = docs.iter().map(|(d, _, errs)| format!("{}:{}", idx(d), errs.iter().map(|(ns, es)| format!("{}={}", idx(ns), { let mut v: Vec<usize> = es.iter().map(|e| idx(e)).collect(); v.sort(); v.iter().map(|e| e.to_string()).collect::<Vec<_>>().join(".") })).collect::<Vec<_>>().join(";"))).collect::<Vec<_>>().join("|");
    let de = doc_errs.iter().map(|d| idx(d).to_string()).collect::<Vec<_>>().join(".");
    let dash = |s: String| if s.is_empty() { "-".to_string() } else { s };
    (format!("{}#{}", dash(prepared), dash(de.clone())), dash(out), dash(errs), dash(de))
}

fn render_prepared(p: &PreparedDeviceResponse) -> (String, String, String, String) {
    let docs = p.prepared_documents.iter().map(|d| (d.doc_type.clone(),
        d.issuer_signed.namespaces.as_ref().map(|m| m.iter().map(|(ns, v)| (ns.clone(), v.iter().cloned().collect())).collect()).unwrap_or_default(),
        d.errors.as_ref().map(|m| m.iter().map(|(ns, es)| (ns.clone(), es.iter().map(|(e, _)| e.clone()).collect())).collect()).unwrap_or_default())).collect();
    let de = p.document_errors.as_ref().map(|v| v.iter().flat_map(|m| m.keys().cloned()).collect()).unwrap_or_default();
    render(docs, de)
}

fn gen_case(ctx: &mut Ctx, small: Option<u32>) -> Case {
    let rng = &mut ctx.rng;
    let nd = 3usize; let nn = 3usize; let ne = 4usize;
    let _ = small;
    let mut held = BTreeMap::new();
    for d in 0..nd { if rng.gen_bool(0.7) {
        let mut nss = BTreeMap::new();
        for ns in 0..nn { if rng.gen_bool(0.7) { let es: Vec<usize> = (0..ne).filter(|_| rng.gen_bool(0.6)).collect(); if !es.is_empty() { nss.insert(ns, es); } } }
        if !nss.is_empty() { held.insert(d, (rng.gen_bool(0.9), nss)); } } }
    let mut req = vec![];
    for _ in 0..rng.gen_range(1..=3) {
        let d = rng.gen_range(0..nd + 1);
        let mut nss = BTreeMap::new();
        for ns in 0..nn + 1 { if rng.gen_bool(0.5) { let es: Vec<usize> = (0..ne + 1).filter(|_| rng.gen_bool(0.5)).collect(); if !es.is_empty() { nss.insert(ns, es); } } }
        if !nss.is_empty() { req.push((d, nss)); }
    }
    let mut perm = BTreeMap::new();
    for d in 0..nd + 2 { if rng.gen_bool(0.6) {
        let mut nss = BTreeMap::new();
        for ns in 0..nn + 1 { if rng.gen_bool(0.6) {
            let mut es: Vec<usize> = (0..ne + 2).filter(|_| rng.gen_bool(0.55)).collect();
            if rng.gen_bool(0.2) && !es.is_empty() { let dup = es[rng.gen_range(0..es.len())]; es.push(dup); }
            if rng.gen_bool(0.3) { use rand::seq::SliceRandom; es.shuffle(rng); }
            nss.insert(ns, es); } }
        perm.insert(d, nss); } }
    Case { held, req, perm }
}

fn run_case(ctx: &mut Ctx, tag: &str, pki: &Pki, template: &Document, transcript: &SessionTranscript180135, c: &Case) {
    let Some(docs) = build_docs(pki, template, c) else { return };
    let requests = to_requests(c);
    let permitted = to_permitted(c);
    // requests with an empty namespace map cannot be expressed (NonEmptyMap): keep the case aligned
    let req_aligned: Vec<(usize, BTreeMap<usize, Vec<usize>>)> = c.req.iter().filter(|(_, n)| !n.is_empty()).cloned().collect();
    let (held_s, req_s, perm_s) = (fmt_held(c), fmt_docs(&req_aligned), fmt_docs(&c.perm.iter().map(|(d, n)| (*d, n.clone())).collect::<Vec<_>>()));
    // filter_permitted alone
    let f = filter_permitted(&requests, permitted.clone());
    let f_s = { let v: Vec<(usize, BTreeMap<usize, Vec<usize>>)> = f.iter().map(|(d, nss)| (idx(d), nss.iter().map(|(ns, es)| (idx(ns), es.iter().map(|e| idx(e)).collect())).collect())).collect(); fmt_docs(&v) };
    ctx.emit.corr(&format!("{tag}:filter"), format!("disc.filter {req_s} {perm_s}"), f_s);
    let holder = Holder { docs, transcript: transcript.clone() };
    let p = DeviceSession::prepare_response(&holder, &requests, permitted);
    let (prep_s, out_s, errs_s, de_s) = render_prepared(&p);
    let case = serde_json::json!({"held": held_s, "request": req_s, "permitted": perm_s, "real": prep_s});
    ctx.emit.line("corr", &format!("{tag}:prepare"), format!("disc.prepare {held_s} {req_s} {perm_s}"), prep_s.clone(), case.clone());
    ctx.emit.line("spec", &format!("spec:{tag}:sound"), format!("spec.c02.sound {held_s} {req_s} {perm_s} {out_s} {errs_s} {de_s}"), "true".into(), case.clone());
    let distinct = { let mut ds: Vec<usize> = req_aligned.iter().map(|(d, _)| *d).collect(); ds.sort(); ds.windows(2).all(|w| w[0] != w[1]) };
    if distinct {
        ctx.emit.line("spec", &format!("spec:{tag}:complete"), format!("spec.c02.complete {held_s} {req_s} {perm_s} {out_s} {errs_s} {de_s}"), "true".into(), case);
    }
}

pub fn run(ctx: &mut Ctx) {
    let pki = Pki::new(&mut ctx.rng);
    let mut rng2: rand_chacha::ChaCha8Rng = rand::SeedableRng::seed_from_u64(ctx.rng.gen());
    let key = world::key_from(&mut rng2);
    let template = Document::from(world::issue(&pki, "template", sess::default_ns_values(), DigestAlgorithm::SHA256, false, &key).unwrap());
    let sim = Sim::new(1, &pki, &mut rng2, &[sess::MDL], &["family_name"], TrustAnchorRegistry::default(), TrustAnchorRegistry::default());
    let transcript: SessionTranscript180135 = { let v = sess::b64_to_value(&{ use isomdl::presentation::Stringify; sim.dev.stringify().unwrap() });
        cbor::from_value(sess::vget(&v, "session_transcript").unwrap().clone()).unwrap() };
    // 1. exhaustive small scope: 2 docs x 1 ns x 2 elems; all held/request/permit subsets
    for held_mask in 0..16u32 { for req_mask in 0..16u32 { for perm_mask in 0..16u32 {
        let pick = |m: u32, d: usize| -> Vec<usize> { (0..2).filter(|e| m & (1 << (d * 2 + e)) != 0).collect() };
        let mut c = Case { held: BTreeMap::new(), req: vec![], perm: BTreeMap::new() };
        for d in 0..2 {
            let h = pick(held_mask, d); if !h.is_empty() { c.held.insert(d, (true, [(0usize, h)].into_iter().collect())); }
            let r = pick(req_mask, d); if !r.is_empty() { c.req.push((d, [(0usize, r)].into_iter().collect())); }
            let p = pick(perm_mask, d); if !p.is_empty() { c.perm.insert(d, [(0usize, p)].into_iter().collect()); }
        }
        if c.held.is_empty() || c.req.is_empty() { continue; }
        run_case(ctx, "exhaustive", &pki, &template, &transcript, &c);
    } } }
    // 1b. exhaustive small scope ACROSS namespaces: one document (index 1: its namespaces reuse each other's digestIDs) with two
    //     namespaces of two elements; all held / request / permit subsets
    for held_mask in 1..16u32 { for req_mask in 1..16u32 { for perm_mask in 0..16u32 {
        let pick = |m: u32, ns: usize| -> Vec<usize> { (0..2).filter(|e| m & (1 << (ns * 2 + e)) != 0).collect() };
        let mk = |m: u32| -> BTreeMap<usize, Vec<usize>> { (0..2usize).filter_map(|ns| { let v = pick(m, ns); if v.is_empty() { None } else { Some((ns, v)) } }).collect() };
        let mut c = Case { held: BTreeMap::new(), req: vec![], perm: BTreeMap::new() };
        c.held.insert(1, (true, mk(held_mask))); c.req.push((1, mk(req_mask))); if perm_mask != 0 { c.perm.insert(1, mk(perm_mask)); }
        run_case(ctx, "exhaustive-namespaces", &pki, &template, &transcript, &c);
    } } }
    // 2. random larger cases (several docs/namespaces, unheld ids, supersets, duplicates, duplicate doc requests)
    for _ in 0..(if ctx.thorough { 100_000 } else { 3_000 }) {
        let c = gen_case(ctx, None);
        if c.held.is_empty() || c.req.is_empty() { continue; }
        run_case(ctx, "random", &pki, &template, &transcript, &c);
    }
    // 3. wire level: sequences of requests in one real session; each decrypted DeviceResponse is
    //    checked against the request being answered only (nothing from earlier rounds)
    for s in 0..(if ctx.thorough { 300 } else { 25 }) {
        let c0 = gen_case(ctx, None);
        if c0.held.is_empty() { eprintln!("empty held"); continue; }
        let Some(docs) = build_docs(&pki, &template, &c0) else { eprintln!("no docs"); continue };
        let init = isomdl::presentation::device::SessionManagerInit::initialise(docs, None, None).unwrap();
        let (eng, qr) = init.qr_engagement().unwrap();
        let (mut rdr, est, _) = isomdl::presentation::reader::SessionManager::establish_session(qr, sess::simple_namespaces(&["x"]), TrustAnchorRegistry::default()).unwrap();
        let (mut dev, _) = eng.process_session_establishment(cbor::from_slice(&est).unwrap(), TrustAnchorRegistry::default()).unwrap();
        let sk_device = sess::peek_device(&dev).sk_device;
        for round in 0..ctx.rng.gen_range(1..=5) {
            let mut c = gen_case(ctx, None);
            c.held = c0.held.clone();
            if c.req.is_empty() { continue; }
            if round > 0 { let m = rdr.new_request(sess::simple_namespaces(&["x"])).unwrap(); dev.handle_request(&m); }
            // sometimes an earlier request was prepared (and maybe partly signed) but never completed:
            // nothing of it may show up in the answer to the request being answered now
            if ctx.rng.gen_bool(0.35) {
                let mut old = gen_case(ctx, None);
                old.held = c0.held.clone();
                // half of the time the abandoned request asked for (and was permitted) everything held,
                // so that whatever it prepared or signed is as visible as possible if it ever leaks
                if ctx.rng.gen_bool(0.5) {
                    old.req = c0.held.iter().map(|(d, (_, nss))| (*d, nss.clone())).collect();
                    old.perm = c0.held.iter().map(|(d, (_, nss))| (*d, nss.clone())).collect();
                }
                let everything = old.req.len() == c0.held.len() && old.perm.len() == c0.held.len();
                if !old.req.is_empty() {
                    isomdl::presentation::device::SessionManager::prepare_response(&mut dev, &to_requests(&old), to_permitted(&old));
                    // sign one document and leave the rest (always, when everything was asked for: with two or more documents the
                    // state then stays Signing with one signed document in it)
                    if (everything || ctx.rng.gen_bool(0.5)) && dev.get_next_signature_payload().is_some() { dev.submit_next_signature(vec![8; 64]).unwrap(); }
                    if dev.response_ready() { let _ = dev.retrieve_response(); }
                    // half of the time the request answered next is the abandoned one NARROWED: same document types, one element each
                    if everything && ctx.rng.gen_bool(0.5) {
                        let narrow = |m: &BTreeMap<usize, Vec<usize>>| -> BTreeMap<usize, Vec<usize>> { m.iter().take(1).map(|(ns, es)| (*ns, es.iter().take(1).cloned().collect())).collect() };
                        c.req = old.req.iter().map(|(d, nss)| (*d, narrow(nss))).collect();
                        c.perm = old.perm.iter().map(|(d, nss)| (*d, narrow(nss))).collect();
                    }
                }
            }
            isomdl::presentation::device::SessionManager::prepare_response(&mut dev, &to_requests(&c), to_permitted(&c));
            let mut guard = 0;
            while dev.get_next_signature_payload().is_some() && guard < 10 { dev.submit_next_signature(vec![9; 64]).unwrap(); guard += 1; }
            if !dev.response_ready() { dev.submit_next_signature(vec![9; 64]).unwrap(); }
            let Some(msg) = dev.retrieve_response() else { eprintln!("no response"); continue };
            let sd: SessionData = cbor::from_slice(&msg).unwrap();
            let ct: Vec<u8> = sd.data.unwrap().into();
            let n = sess::peek_device(&dev).dev_ctr;
            let Some(pt) = sess::aes_dec(&sk_device, &sess::iv_bytes(false, n), &ct) else { eprintln!("undecryptable n={n}"); continue };
            let resp: DeviceResponse = cbor::from_slice(&pt).unwrap();
            let docs_r = resp.documents.map(|v| v.into_inner()).unwrap_or_default().into_iter().map(|d| (d.doc_type.clone(),
                d.issuer_signed.namespaces.map(|m| m.into_inner().into_iter().map(|(ns, v)| (ns, v.into_inner())).collect()).unwrap_or_default(),
                d.errors.map(|m| m.into_inner().into_iter().map(|(ns, es)| (ns, es.into_inner().into_keys().collect())).collect()).unwrap_or_default())).collect::<Vec<_>>();
            let de = resp.document_errors.map(|v| v.into_inner().into_iter().flat_map(|m| m.into_keys()).collect()).unwrap_or_default();
            // the wire response lists documents in signing order (last prepared first): sort by doc type for the model comparison
            let mut docs_sorted = docs_r.clone(); docs_sorted.sort_by(|a, b| a.0.cmp(&b.0));
            let (prep_s, out_s, errs_s, de_s) = render(docs_sorted, de);
            let req_aligned: Vec<(usize, BTreeMap<usize, Vec<usize>>)> = c.req.iter().filter(|(_, n)| !n.is_empty()).cloned().collect();
            let (held_s, req_s, perm_s) = (fmt_held(&c), fmt_docs(&req_aligned), fmt_docs(&c.perm.iter().map(|(d, n)| (*d, n.clone())).collect::<Vec<_>>()));
            let case = serde_json::json!({"session": s, "round": round, "held": held_s, "request": req_s, "permitted": perm_s, "wire": prep_s});
            ctx.emit.line("corr", "wire:prepare", format!("disc.prepare {held_s} {req_s} {perm_s}"), prep_s, case.clone());
            ctx.emit.line("spec", "spec:wire:sound", format!("spec.c02.sound {held_s} {req_s} {perm_s} {out_s} {errs_s} {de_s}"), "true".into(), case);
        }
    }
}
