//! C20: nearest_age_attestation / parse_age_from_element_identifier.
use crate::{hex_or_dash, guarded, Ctx};
use isomdl::definitions::helpers::{ByteStr, NonEmptyMap, Tag24};
use isomdl::definitions::{DigestId, IssuerSignedItem};
use isomdl::presentation::device::{nearest_age_attestation, parse_age_from_element_identifier, Error};
use rand::Rng;
use std::collections::BTreeMap;

#[derive(Clone)]
pub enum Val { T, F, Other }

fn item(id: &str, v: &Val, n: i32) -> Tag24<IssuerSignedItem> {
    let value = match v {
        Val::T => ciborium::Value::Bool(true),
        Val::F => ciborium::Value::Bool(false),
        Val::Other => ciborium::Value::Integer(1.into()),
    };
    if n % 2 == 1 {
        // a foreign issuer's encoding: other key order, non-minimal integer head; the device must
        // hand back exactly these bytes
        let m = ciborium::Value::Map(vec![
            (ciborium::Value::Text("elementValue".into()), value),
            (ciborium::Value::Text("elementIdentifier".into()), ciborium::Value::Text(id.to_string())),
            (ciborium::Value::Text("random".into()), ciborium::Value::Bytes(vec![n as u8; 16])),
        ]);
        let mut bytes = vec![];
        ciborium::ser::into_writer(&m, &mut bytes).unwrap();
        // turn the 3-entry map into a 4-entry one and append digestID with a 2-byte head
        bytes[0] = 0xa4;
        bytes.extend_from_slice(&[0x68, b'd', b'i', b'g', b'e', b's', b't', b'I', b'D', 0x19, 0x00, (n & 0xff) as u8]);
        return Tag24::from_bytes(bytes).unwrap();
    }
    Tag24::new(IssuerSignedItem {
        digest_id: DigestId::new(n),
        random: ByteStr::from(vec![n as u8; 16]),
        element_identifier: id.to_string(),
        element_value: value,
    }).unwrap()
}

fn err_class(e: &Error) -> &'static str {
    match e {
        Error::PrefixError => "err prefix",
        Error::ParsingError(_) => "err parseInt",
        _ => "err other",
    }
}

/// One call. `held` need not be sorted; the BTreeMap sorts it (bytewise = model order).
fn one(ctx: &mut Ctx, tag: &str, req: &str, held: &[(String, Val)]) {
    let mut m: BTreeMap<String, (Val, Tag24<IssuerSignedItem>)> = BTreeMap::new();
    for (i, (id, v)) in held.iter().enumerate() {
        m.insert(id.clone(), (v.clone(), item(id, v, i as i32)));
    }
    if m.is_empty() { return; }
    let sorted: Vec<(String, Val, Tag24<IssuerSignedItem>)> =
        m.into_iter().map(|(k, (v, t))| (k, v, t)).collect();
    let map: BTreeMap<String, Tag24<IssuerSignedItem>> =
        sorted.iter().map(|(k, _, t)| (k.clone(), t.clone())).collect();
    let nem = NonEmptyMap::maybe_new(map).unwrap();
    let req_s = req.to_string();
    let res = guarded(move || nearest_age_attestation(req_s, nem));
    let real = match &res {
        Err(_) => "panic".to_string(),
        Ok(Err(e)) => err_class(e).to_string(),
        Ok(Ok(None)) => "ok none".to_string(),
        Ok(Ok(Some(t))) => {
            // which held item, and is it byte-identical?
            match sorted.iter().position(|(_, _, h)| h.inner_bytes == t.inner_bytes) {
                Some(i) => format!("ok {i}"),
                None => "ok changed-item".to_string(),
            }
        }
    };
    let mut op = format!("age.nearest {}", hex_or_dash(req.as_bytes()));
    for (k, v, _) in &sorted {
        op.push_str(&format!(" {} {}", hex_or_dash(k.as_bytes()),
            match v { Val::T => "t", Val::F => "f", Val::Other => "o" }));
    }
    let case = serde_json::json!({"requested": req,
        "held": sorted.iter().map(|(k, v, _)| format!("{}={}", k, match v {Val::T=>"true",Val::F=>"false",Val::Other=>"1"})).collect::<Vec<_>>(),
        "real": real});
    ctx.emit.line("corr", tag, op, real.clone(), case.clone());

    // Spec(real): only inside the property's domain (request age_over_NN, holdings age_over_NN
    // two digits with boolean values next to unrelated identifiers).
    // domain of the theorem: every identifier containing `age_over` is `age_over_<u8>` (harness-side
    // parse with Rust's own `u8::from_str`, independent of the library function) with a boolean value
    let wf_id = |s: &str| s.starts_with("age_over_") && s[9..].parse::<u8>().is_ok();
    let in_domain = wf_id(req)
        && sorted.iter().all(|(k, v, _)| if k.contains("age_over") { wf_id(k) && !matches!(v, Val::Other) } else { true });
    if in_domain {
        let n: u32 = req[9..].parse().unwrap();
        // claims in held order, indices refer to `sorted`; unrelated ones are given age 0/other
        // by mapping the result index into the claim list.
        let claims: Vec<(usize, u32, bool)> = sorted.iter().enumerate()
            .filter(|(_, (k, _, _))| k.contains("age_over"))
            .map(|(i, (k, v, _))| (i, k[9..].parse().unwrap(), matches!(v, Val::T))).collect();
        let res_tok = match real.as_str() {
            "ok none" => "none".to_string(),
            r if r.starts_with("ok ") && r != "ok changed-item" => {
                let idx: usize = r[3..].parse().unwrap();
                match claims.iter().position(|(i, _, _)| *i == idx) {
                    Some(p) => p.to_string(),
                    None => "999999".to_string(), // returned an unrelated element
                }
            }
            _ => "999998".to_string(), // error / panic / changed item inside the domain
        };
        let mut op = format!("spec.age {} {}", n, res_tok);
        for (_, a, t) in &claims { op.push_str(&format!(" {} {}", a, if *t { "t" } else { "f" })); }
        ctx.emit.line("spec", &format!("spec:{tag}"), op, "true".into(), case);
    }
}

fn parse_one(ctx: &mut Ctx, tag: &str, id: &str) {
    let s = id.to_string();
    let real = match guarded(move || parse_age_from_element_identifier(s)) {
        Err(_) => "panic".to_string(),
        Ok(Ok(n)) => format!("ok {n}"),
        Ok(Err(e)) => err_class(&e).to_string(),
    };
    ctx.emit.corr(tag, format!("age.parse {}", hex_or_dash(id.as_bytes())), real);
}

pub fn run(ctx: &mut Ctx) {
    // 1. identifier parsing: every two-digit suffix, plus boundary shapes of `u8::from_str`.
    for n in 0..100 { parse_one(ctx, "parse-wf", &format!("age_over_{n:02}")); }
    for s in ["age_over_", "age_over_+", "age_over_-", "age_over_+5", "age_over_-5", "age_over_005",
              "age_over_255", "age_over_256", "age_over_0256", "age_over_999", "age_over_2x", "age_over_ 2",
              "age_over_2 ", "age_over_٢١", "ageover_21", "age_over21", "Age_over_21", "xage_over_21",
              "age_over_age_over_21", "", "age_over", "age_over_++1", "age_over_+-1", "age_over_1_1",
              "age_over_0", "age_over_00", "age_over_000", "age_over_+000000000000000000255", "age_over_1e1"] {
        parse_one(ctx, "parse-edge", s);
    }
    // 2. exhaustive: all requested ages 0..99 × all claim sets over a k-age universe, each age
    //    absent / true / false, alongside unrelated elements.
    let universes: Vec<Vec<u32>> = if ctx.thorough {
        vec![vec![0, 12, 16, 18, 21, 25, 65, 99], vec![1, 17, 18, 19, 20, 21, 22, 98]]
    } else {
        vec![vec![0, 18, 21, 65, 99]]
    };
    for uni in &universes {
        let k = uni.len();
        let total = 3usize.pow(k as u32);
        for code in 0..total {
            let mut held: Vec<(String, Val)> = vec![("family_name".into(), Val::Other), ("portrait".into(), Val::T)];
            let mut c = code;
            for a in uni {
                match c % 3 { 1 => held.push((format!("age_over_{a:02}"), Val::T)), 2 => held.push((format!("age_over_{a:02}"), Val::F)), _ => {} }
                c /= 3;
            }
            for n in 0..100u32 {
                one(ctx, "exhaustive", &format!("age_over_{n:02}"), &held);
            }
        }
    }
    // 3. random larger sets over 0..99, including non-monotone truth assignments.
    let rounds = if ctx.thorough { 200_000 } else { 4_000 };
    for _ in 0..rounds {
        let cnt = ctx.rng.gen_range(0..12);
        let mut held: Vec<(String, Val)> = vec![("given_name".into(), Val::F)];
        let pivot = ctx.rng.gen_range(0..100);
        let honest = ctx.rng.gen_bool(0.7);
        for _ in 0..cnt {
            let a = ctx.rng.gen_range(0..100u32);
            let v = if honest { if a <= pivot { Val::T } else { Val::F } } else if ctx.rng.gen_bool(0.5) { Val::T } else { Val::F };
            held.push((format!("age_over_{a:02}"), v));
        }
        let n = ctx.rng.gen_range(0..100u32);
        one(ctx, "random", &format!("age_over_{n:02}"), &held);
    }
    // 4. outside the domain: equal ages through `+NN`/`0NN` spellings (ties), non-boolean values,
    //    malformed holdings, malformed requests.  Correspondence only.
    let edge_ids = ["age_over_21", "age_over_021", "age_over_+21", "age_over_0021", "age_over_18", "age_over_+18", "age_over_5", "age_over_8", "age_over_3", "age_over_100", "age_over_9",
                    "age_over_65", "age_over_2x", "xage_over_30", "age_over_", "age_over_256", "age_over_255", "age_overt"];
    let edge_reqs = ["age_over_21", "age_over_+21", "age_over_20", "age_over_18", "age_over_3", "age_over_4", "age_over_9", "age_over_19", "age_over_99", "age_over_255", "age_over_0", "age_over_2x",
                     "ageover_21", "age_over_256", "age_over_"];
    let rounds = if ctx.thorough { 40_000 } else { 3_000 };
    for _ in 0..rounds {
        let cnt = ctx.rng.gen_range(1..6);
        let mut held = vec![];
        for _ in 0..cnt {
            let id = edge_ids[ctx.rng.gen_range(0..edge_ids.len())];
            let bad = ctx.rng.gen_bool(0.15);
            if (id == "age_over_2x" || id == "xage_over_30" || id == "age_over_" || id == "age_over_256") && !bad { continue; }
            let v = match ctx.rng.gen_range(0..7) { 0 => Val::Other, 1..=3 => Val::T, _ => Val::F };
            held.push((id.to_string(), v));
        }
        held.push(("document_number".into(), Val::T));
        let req = edge_reqs[ctx.rng.gen_range(0..edge_reqs.len())];
        one(ctx, "edge", req, &held);
    }
}
