//! C15: hostile but well-formed (and correctly encrypted) inputs at every entry point, each call
//! under catch_unwind with a wall-clock measurement.  Search/tie role only: the proof side is the
//! panic-site inventory + the models of the own partial operations.
use crate::auth::{self, mget_mut, Live};
use crate::gen::to_bytes;
use crate::sess::{self, Sim, MDL};
use crate::world::Pki;
use crate::{guarded, Ctx};
use ciborium::Value;
use isomdl::cbor;
use isomdl::definitions::device_key::cose_key::CoseKey;
use isomdl::definitions::helpers::Tag24;
use isomdl::definitions::x509::trust_anchor::TrustAnchorRegistry;
use isomdl::definitions::{DeviceEngagement, SessionData, SessionEstablishment};
use isomdl::presentation::{device, reader, Stringify};
use rand::Rng;
use std::time::Instant;

fn iv(i: i128) -> Value { Value::Integer((i as i64).into()) }

fn big(i: i128) -> Value { Value::Integer(ciborium::value::Integer::try_from(i).unwrap()) }

fn boundary_int(rng: &mut impl Rng) -> Value {
    let c: [i128; 18] = [0, 1, 23, 24, 255, 256, 65535, 65536, 4294967295, 4294967296, i64::MAX as i128, -1, -25, i64::MIN as i128,
        u64::MAX as i128, i64::MAX as i128 + 1, i64::MIN as i128 - 1, -(u64::MAX as i128) - 1];
    big(c[rng.gen_range(0..c.len())])
}

/// one structure-aware mutation somewhere in the tree
pub fn mutate(v: &mut Value, rng: &mut rand_chacha::ChaCha8Rng, depth: u32) {
    let descend = rng.gen_bool(0.7) && depth < 12;
    match v {
        Value::Map(m) if !m.is_empty() && descend => { let i = rng.gen_range(0..m.len()); if rng.gen_bool(0.15) { mutate(&mut m[i].0, rng, depth + 1) } else { mutate(&mut m[i].1, rng, depth + 1) } }
        Value::Array(a) if !a.is_empty() && descend => { let i = rng.gen_range(0..a.len()); mutate(&mut a[i], rng, depth + 1) }
        Value::Tag(24, inner) if descend => {
            // descend INTO the embedded item
            if let Value::Bytes(b) = &mut **inner { if let Ok(mut iv) = cbor::from_slice::<Value>(b) { mutate(&mut iv, rng, depth + 1); *b = to_bytes(&iv); return; } }
            mutate(inner, rng, depth + 1)
        }
        Value::Tag(_, inner) if descend => mutate(inner, rng, depth + 1),
        _ => {
            let k = rng.gen_range(0..13);
            match (k, &mut *v) {
                (0, Value::Map(m)) if !m.is_empty() => { let i = rng.gen_range(0..m.len()); m.remove(i); }
                (1, Value::Map(m)) if !m.is_empty() => { let i = rng.gen_range(0..m.len()); let e = m[i].clone(); m.push(e); }
                (2, Value::Array(a)) if !a.is_empty() => { let i = rng.gen_range(0..a.len()); a.remove(i); }
                (3, Value::Array(a)) => { a.push(boundary_int(rng)); }
                (4, Value::Bytes(b)) => { let l = rng.gen_range(0..71); b.resize(l, 0x5a); }
                (5, Value::Bytes(b)) => { if !b.is_empty() { let i = rng.gen_range(0..b.len()); b[i] ^= 0xff; } }
                (6, Value::Text(t)) => {
                    // date-looking texts get the RFC 3339 range edges, the others assorted strings
                    if t.len() >= 10 && t.as_bytes()[4] == b'-' { *t = BOUNDARY_DATES[rng.gen_range(0..BOUNDARY_DATES.len())].to_string(); }
                    else { *t = ["", "1.0", "org.iso.18013.5.1.mDL", "age_over_", "\u{0}", "é".repeat(200).as_str()][rng.gen_range(0..6)].to_string(); } }
                (7, Value::Integer(_)) => { *v = boundary_int(rng); }
                (8, _) => { *v = boundary_int(rng); }
                (9, _) => { *v = [Value::Null, Value::Bool(true), Value::Text("x".into()), Value::Bytes(vec![]), Value::Array(vec![]), Value::Map(vec![]), Value::Float(1.5)][rng.gen_range(0..7)].clone(); }
                (10, _) => { let mut n = v.clone(); for _ in 0..300 { n = Value::Array(vec![n]); } *v = n; }
                (11, _) => { *v = Value::Tag(rng.gen_range(0..30), Box::new(v.clone())); }
                _ => { *v = Value::Bytes((0..rng.gen_range(0..71)).map(|_| rng.gen()).collect()); }
            }
        }
    }
}

pub const BOUNDARY_DATES: [&str; 8] = ["9999-12-31T23:59:59-01:00", "0000-01-01T00:00:00+01:00", "9999-12-31T23:59:60-00:01", "0000-01-01T00:00:00Z", "9999-12-31T23:59:59Z",
    "2016-12-31T23:59:60Z", "2020-01-01T00:00:00.999999999999999999Z", "2020-02-30T00:00:00Z"];

/// replace every tag-0 date-time below `v` by `date`
pub fn set_dates(v: &mut Value, date: &str) {
    match v {
        Value::Tag(0, inner) => { **inner = Value::Text(date.to_string()); }
        Value::Tag(24, inner) => { if let Value::Bytes(b) = &mut **inner { if let Ok(mut iv) = cbor::from_slice::<Value>(b) { set_dates(&mut iv, date); *b = to_bytes(&iv); } } }
        Value::Tag(_, inner) => set_dates(inner, date),
        Value::Array(a) => { for x in a { set_dates(x, date) } }
        Value::Map(m) => { for (_, x) in m { set_dates(x, date) } }
        // the issuerAuth payload is a bstr holding #6.24(bstr MSO)
        Value::Bytes(b) => { if b.len() > 30 { if let Ok(mut iv) = cbor::from_slice::<Value>(b) { if matches!(iv, Value::Tag(24, _)) { set_dates(&mut iv, date); *b = to_bytes(&iv); } } } }
        _ => {}
    }
}

/// every hostile shape of a COSE_Key
pub fn hostile_keys() -> Vec<(String, Value)> {
    let mut out = vec![];
    let ec2 = |crv: i128, x: Value, y: Value| Value::Map(vec![(iv(1), iv(2)), (iv(-1), iv(crv)), (iv(-2), x), (iv(-3), y)]);
    for l in 0..=70usize { out.push((format!("ec2-p256-x{l}"), ec2(1, Value::Bytes(vec![1; l]), Value::Bytes(vec![2; 32])))); out.push((format!("ec2-p256-y{l}"), ec2(1, Value::Bytes(vec![1; 32]), Value::Bytes(vec![2; l]))));
        out.push((format!("ec2-p256-x{l}-signbit"), ec2(1, Value::Bytes(vec![1; l]), Value::Bool(l % 2 == 0))));
        for crv in [4i128, 5, 6, 7] { out.push((format!("okp-{crv}-x{l}"), Value::Map(vec![(iv(1), iv(1)), (iv(-1), iv(crv)), (iv(-2), Value::Bytes(vec![3; l]))]))); } }
    for crv in [2i128, 3, 8, 0, 9, -1] { out.push((format!("ec2-crv{crv}"), ec2(crv, Value::Bytes(vec![1; 48]), Value::Bytes(vec![2; 48])))); }
    out.push(("ec2-zero-point".into(), ec2(1, Value::Bytes(vec![0; 32]), Value::Bytes(vec![0; 32]))));
    out.push(("ec2-all-ff".into(), ec2(1, Value::Bytes(vec![0xff; 32]), Value::Bytes(vec![0xff; 32]))));
    out.push(("not-a-map".into(), Value::Array(vec![])));
    out.push(("kty-3".into(), Value::Map(vec![(iv(1), iv(3)), (iv(-1), iv(1)), (iv(-2), Value::Bytes(vec![1; 32]))])));
    out.push(("text-keys".into(), Value::Map(vec![(Value::Text("kty".into()), iv(2))])));
    out
}

fn kind_of(what: &str) -> &str { what.split(':').next().unwrap().trim_end_matches(|c: char| c.is_ascii_digit()) }

fn timed<T>(f: impl FnOnce() -> T + std::panic::UnwindSafe) -> (Result<T, String>, f64) { let t = Instant::now(); let r = guarded(f); (r, t.elapsed().as_secs_f64()) }

fn report(ctx: &mut Ctx, entry: &str, what: &str, panicked: bool, secs: f64, input: &[u8], detail: &str) {
    let slow = secs > 5.0;
    ctx.emit.line("spec", &format!("spec:{entry}:{what}"), format!("spec.eq {} ok", if panicked { "panic" } else if slow { "timeout" } else { "ok" }), "true".into(),
        serde_json::json!({"entry": entry, "what": what, "panic_message": detail.chars().take(200).collect::<String>(), "seconds": secs, "msg_hex": hex::encode(input)}));
}

pub fn run(ctx: &mut Ctx) {
    let pki = Pki::new(&mut ctx.rng);
    let mut rng: rand_chacha::ChaCha8Rng = rand::SeedableRng::seed_from_u64(ctx.rng.gen());
    let reg = pki.iaca_registry();
    let live = Live::new(1, &pki, &mut rng, reg.clone(), &["family_name", "age_over_18"]);
    let keys = hostile_keys();
    let budget = if ctx.thorough { 400 } else { 1 };

    // --- 0. the modelled own partial operations, systematically: CoseKey -> EncodedPoint / shared secret
    for (name, kv) in &keys {
        let Ok(ck) = cbor::from_value::<CoseKey>(kv.clone()) else { continue };
        let kb = to_bytes(kv);
        let (r, secs) = timed({ let ck = ck.clone(); move || p256::EncodedPoint::try_from(ck).map(|e| hex::encode(e.as_bytes())) });
        let real = match &r { Err(_) => "panic".to_string(), Ok(Ok(h)) => format!("ok:{h}"), Ok(Err(_)) => "refused".into() };
        ctx.emit.line("corr", "model:encoded-point", format!("c15.encodedPoint {}", hex::encode(&kb)), real, serde_json::json!({"key": name, "msg_hex": hex::encode(&kb)}));
        report(ctx, "EncodedPoint::try_from", "hostile-key", r.is_err(), secs, &kb, r.as_ref().err().map(|s| s.as_str()).unwrap_or(""));
        let scalar = p256::NonZeroScalar::random(&mut rng);
        let (r2, secs2) = timed({ let ck = ck.clone(); move || isomdl::definitions::session::get_shared_secret(ck, &scalar).is_ok() });
        report(ctx, "get_shared_secret", "hostile-key", r2.is_err(), secs2, &kb, r2.as_ref().err().map(|s| s.as_str()).unwrap_or(""));
    }

    // --- 1. QR code / engagement on the reader
    let eng_bytes = base64::decode_config(live.sim.qr.strip_prefix("mdoc:").unwrap(), base64::URL_SAFE_NO_PAD).unwrap();
    let eng_v: Value = cbor::from_slice(&eng_bytes).unwrap();
    let mut engagements: Vec<(String, Vec<u8>)> = vec![];
    for (name, kv) in &keys { let mut v = eng_v.clone(); if let Value::Map(m) = &mut v { for (k, x) in m.iter_mut() { if k.as_integer().map(i128::from) == Some(1) { *x = Value::Array(vec![iv(1), Value::Tag(24, Box::new(Value::Bytes(to_bytes(kv))))]); } } } engagements.push((format!("key:{name}"), to_bytes(&v))); }
    for i in 0..(300 * budget) { let mut v = eng_v.clone(); for _ in 0..rng.gen_range(1..3) { mutate(&mut v, &mut rng, 0); } engagements.push((format!("mutant{i}"), to_bytes(&v))); }
    for i in 0..(100 * budget) { engagements.push((format!("random{i}"), (0..rng.gen_range(0..120)).map(|_| rng.gen()).collect())); }
    for (what, b) in &engagements {
        let qr = format!("mdoc:{}", base64::encode_config(b, base64::URL_SAFE_NO_PAD));
        let (r, secs) = timed({ let qr = qr.clone(); move || Tag24::<DeviceEngagement>::from_qr_code_uri(&qr).is_ok() });
        report(ctx, "from_qr_code_uri", kind_of(what), r.is_err(), secs, b, r.as_ref().err().map(|s| s.as_str()).unwrap_or(""));
        let (r, secs) = timed({ let qr = qr.clone(); let reg = reg.clone(); move || reader::SessionManager::establish_session(qr, sess::simple_namespaces(&["a"]), reg).is_ok() });
        report(ctx, "establish_session", kind_of(what), r.is_err(), secs, b, r.as_ref().err().map(|s| s.as_str()).unwrap_or(""));
    }
    // inputs that might not come back or might take the process down are run in a process of their own (`--probe`): URIs with
    // slashes and other separators after the scheme (a loop is a hang, not a panic), and element values nested far deeper than any
    // decoder limit by means that restart the decoder (tag 24 inside tag 24 ...), arrays and maps inside each other
    for uri in ["mdoc:/", "mdoc://", "mdoc:///", "mdoc:/AAAA", "mdoc://AAAA", "mdoc:///AAAA", "mdoc:////AAAA", "mdoc:?", "mdoc:#", "mdoc:%2F", "mdoc:\\", "mdoc: AAAA", "mdoc:\tAAAA", "mdoc:=AAAA", "mdoc:AAAA="] {
        let r = crate::probe_in_child("establish_session", "", uri.as_bytes(), "uri");
        ctx.emit.line("spec", "spec:establish_session:uri-in-child", format!("spec.eq {} ok", r.replace(' ', "_")), "true".into(), serde_json::json!({"entry": "establish_session", "uri": uri, "msg_hex": hex::encode(uri.as_bytes())}));
    }
    { use isomdl::presentation::Stringify;
      let state = live.sim.rdr.stringify().unwrap();
      let n = sess::peek_reader(&live.sim.rdr).dev_ctr + 1;
      let deep = |kind: usize, layers: usize| -> Value { let mut v = Value::Text("x".into());
          for _ in 0..layers { v = match kind { 0 => Value::Tag(24, Box::new(Value::Bytes(to_bytes(&v)))), 1 => Value::Array(vec![v]), 2 => Value::Map(vec![(Value::Text("k".into()), v)]), _ => Value::Tag(0, Box::new(v)) }; } v };
      for (kind, kname) in [(0usize, "tag24-bstr"), (1, "array"), (2, "map"), (3, "tag")] { for layers in [8usize, 200, 3000, if kind == 0 { 12000 } else { 3000 }] {
          if kind != 0 && layers > 200 && !ctx.thorough && kind != 1 { continue; }
          let mut v = live.resp.clone();
          if let Some(items) = auth::items_mut(&mut v, sess::NS) { if let Some(Value::Tag(24, inner)) = items.first_mut() { if let Value::Bytes(b) = &mut **inner {
              if let Ok(mut iv) = cbor::from_slice::<Value>(b) { if let Some(ev) = mget_mut(&mut iv, "elementValue") { *ev = deep(kind, layers); } *b = to_bytes(&iv); } } } }
          let msg = live.wire_message(&v, n);
          let r = crate::probe_in_child("handle_response", &state, &msg, "deep");
          ctx.emit.line("spec", "spec:handle_response:deep-element-value-in-child", format!("spec.eq {} ok", r.replace(' ', "_")), "true".into(),
              serde_json::json!({"entry": "handle_response", "nesting": kname, "layers": layers, "msg_hex": format!("{kname}-{layers}")}));
      } } }
    // text around the scheme: every prefix length, other cases, and multi-byte characters lying ACROSS each of the
    // first eight byte offsets (a byte-indexed slice of the URI must not split a character)
    let mut uris: Vec<String> = ["", "mdoc:", "mdoc:!!!!", "mdoc:AA", "http://x", "mdoc:\u{0}", "MDOC:AA", "Mdoc:", "mdoc", "mdo", "m", "mdoc\u{ff1a}AA", "mdoc\u{e9}"].iter().map(|s| s.to_string()).collect();
    for pad in 0..8usize { for ch in ["\u{e9}", "\u{20ac}", "\u{1f600}", "\u{ff1a}"] {
        uris.push(format!("{}{}{}", &"mdoc:AAAA"[..pad.min(9)], ch, "AA"));
        uris.push(format!("{}{}", "x".repeat(pad), ch));
    } }
    for junk in uris.iter().map(|s| s.as_str()) {
        let junk: &'static str = Box::leak(junk.to_string().into_boxed_str());
        let (r, secs) = timed({ let reg = reg.clone(); move || reader::SessionManager::establish_session(junk.to_string(), sess::simple_namespaces(&["a"]), reg).is_ok() });
        report(ctx, "establish_session", "junk-uri", r.is_err(), secs, junk.as_bytes(), "");
        let (r, secs) = timed(move || Tag24::<DeviceEngagement>::from_qr_code_uri(junk).is_ok());
        report(ctx, "from_qr_code_uri", "junk-uri", r.is_err(), secs, junk.as_bytes(), "");
    }

    // --- 2. session establishment on the device
    let fresh_engaged = |rng: &mut rand_chacha::ChaCha8Rng| -> device::SessionManagerEngaged {
        let s = Sim::new(9, &pki, rng, &[MDL], &["family_name"], TrustAnchorRegistry::default(), TrustAnchorRegistry::default());
        let docs: Value = sess::vget(&sess::b64_to_value(&s.dev.stringify().unwrap()), "documents").cloned().unwrap();
        let docs: device::Documents = cbor::from_value(docs).unwrap();
        device::SessionManagerInit::initialise(docs, None, None).unwrap().qr_engagement().unwrap().0 };
    let engaged_s = fresh_engaged(&mut rng).stringify().unwrap();
    let est_v: Value = cbor::from_slice(&live.sim.establishment).unwrap();
    let mut ests: Vec<(String, Vec<u8>)> = vec![];
    for (name, kv) in &keys { let mut v = est_v.clone(); if let Some(x) = mget_mut(&mut v, "eReaderKey") { *x = Value::Tag(24, Box::new(Value::Bytes(to_bytes(kv)))); } ests.push((format!("key:{name}"), to_bytes(&v))); }
    for i in 0..(300 * budget) { let mut v = est_v.clone(); for _ in 0..rng.gen_range(1..3) { mutate(&mut v, &mut rng, 0); } ests.push((format!("mutant{i}"), to_bytes(&v))); }
    for (what, b) in &ests {
        let Ok(se) = cbor::from_slice::<SessionEstablishment>(b) else { let (r, secs) = timed({ let b = b.clone(); move || cbor::from_slice::<SessionEstablishment>(&b).is_ok() }); report(ctx, "decode:SessionEstablishment", kind_of(what), r.is_err(), secs, b, ""); continue };
        let eng = device::SessionManagerEngaged::parse(engaged_s.clone()).unwrap();
        let (r, secs) = timed(std::panic::AssertUnwindSafe(move || eng.process_session_establishment(se, TrustAnchorRegistry::default()).is_ok()));
        report(ctx, "process_session_establishment", kind_of(what), r.is_err(), secs, b, r.as_ref().err().map(|s| s.as_str()).unwrap_or(""));
    }
    // stored engaged state with an ephemeral key of the wrong length
    for l in [0usize, 1, 31, 33, 64] {
        let mut v = sess::b64_to_value(&engaged_s);
        sess::vset(&mut v, "e_device_key", Value::Array((0..l).map(|_| iv(7)).collect()));
        let Ok(eng) = device::SessionManagerEngaged::parse(sess::value_to_b64(&v)) else { continue };
        let se: SessionEstablishment = cbor::from_slice(&live.sim.establishment).unwrap();
        let (r, secs) = timed(std::panic::AssertUnwindSafe(move || eng.process_session_establishment(se, TrustAnchorRegistry::default()).is_ok()));
        report(ctx, "process_session_establishment", "stored-key-length", r.is_err(), secs, &[l as u8], r.as_ref().err().map(|s| s.as_str()).unwrap_or(""));
        ctx.emit.corr("model:stored-key", format!("c15.storedKeyLen {l}"), if r.is_err() { "panic".into() } else { "refused".into() });
    }

    // --- 3. requests on the device (correctly encrypted hostile plaintext)
    let base_req = { let n = 1; let sd: SessionEstablishment = cbor::from_slice(&live.sim.establishment).unwrap(); let pt = sess::aes_dec(&live.sim.sk_reader, &sess::iv_bytes(true, n), sd.data.as_ref()).unwrap(); cbor::from_slice::<Value>(&pt).unwrap() };
    let dev_snapshot = { let s = Sim::new(8, &pki, &mut rng, &[MDL], &["family_name"], TrustAnchorRegistry::default(), pki.reader_registry()); s };
    for i in 0..(400 * budget) {
        let mut v = base_req.clone(); for _ in 0..rng.gen_range(1..4) { mutate(&mut v, &mut rng, 0); }
        let pt = to_bytes(&v);
        let n = sess::peek_device(&dev_snapshot.dev).rdr_ctr + 1;
        let msg = dev_snapshot.craft_reader_msg(n, &pt);
        let mut d = dev_snapshot.dev.clone();
        let (r, secs) = timed(std::panic::AssertUnwindSafe(move || { let o = d.handle_request(&msg); let _ = d.get_next_signature_payload().is_some(); d.prepare_response(&o.items_request, Default::default()); let _ = d.submit_next_signature(vec![]); d.retrieve_response().is_some() }));
        report(ctx, "handle_request", "mutated-plaintext", r.is_err(), secs, &pt, r.as_ref().err().map(|s| s.as_str()).unwrap_or(""));
        let _ = i;
    }
    for i in 0..(200 * budget) {
        let b: Vec<u8> = if i % 2 == 0 { (0..rng.gen_range(0..90)).map(|_| rng.gen()).collect() } else { let mut v: Value = Value::Map(vec![(Value::Text("data".into()), Value::Bytes(vec![1; 20]))]); mutate(&mut v, &mut rng, 0); to_bytes(&v) };
        let mut d = dev_snapshot.dev.clone();
        let b2 = b.clone();
        let (r, secs) = timed(std::panic::AssertUnwindSafe(move || d.handle_request(&b2).errors.len()));
        report(ctx, "handle_request", "raw-bytes", r.is_err(), secs, &b, "");
    }

    // --- 4. responses on the reader (hostile MSO device keys, mutated responses)
    for (name, kv) in &keys {
        let mut v = live.resp.clone();
        // replace the device key inside the MSO (signature over the MSO then fails, which is fine: the point is what happens before)
        let ia = auth::issuer_auth_mut(&mut v);
        if let Some(Value::Bytes(pl)) = ia.get_mut(2) { if let Ok(Value::Tag(24, inner)) = cbor::from_slice::<Value>(pl) { if let Some(mb) = inner.as_bytes() { if let Ok(mut mso) = cbor::from_slice::<Value>(mb) {
            if let Some(dk) = mget_mut(&mut mso, "deviceKeyInfo").and_then(|d| mget_mut(d, "deviceKey")) { *dk = kv.clone(); }
            *pl = to_bytes(&Value::Tag(24, Box::new(Value::Bytes(to_bytes(&mso))))); } } } }
        let f = auth::facts(&v, &reg, &live.transcript);
        let t = Instant::now(); let r = live.deliver(&v); let secs = t.elapsed().as_secs_f64();
        let (real, _, _, _) = auth::outcome_str(&r);
        ctx.emit.line("corr", "model:device-key-in-mso", format!("resp.outcome {f}"), real, serde_json::json!({"key": name, "msg_hex": hex::encode(to_bytes(&v))}));
        report(ctx, "handle_response", "hostile-device-key", r.is_err(), secs, &to_bytes(&v), r.as_ref().err().map(|s| s.as_str()).unwrap_or(""));
    }
    for x in [u64::MAX as i128, i64::MIN as i128 - 1, -(u64::MAX as i128) - 1] {
        let mut v = live.resp.clone();
        if let Some(items) = auth::items_mut(&mut v, sess::NS) { for it in items.iter_mut() { if let Value::Tag(24, inner) = it { if let Value::Bytes(b) = &mut **inner {
            if let Ok(mut iv) = cbor::from_slice::<Value>(b) { if let Some(ev) = mget_mut(&mut iv, "elementValue") { *ev = big(x); } *b = to_bytes(&iv); } } } } }
        let t = Instant::now(); let r = live.deliver(&v); let secs = t.elapsed().as_secs_f64();
        report(ctx, "handle_response", "extreme-integer-element-value", r.is_err(), secs, &to_bytes(&v), r.as_ref().err().map(|s| s.as_str()).unwrap_or(""));
    }
    for date in BOUNDARY_DATES {
        let mut v = live.resp.clone(); set_dates(&mut v, date);
        let t = Instant::now(); let r = live.deliver(&v); let secs = t.elapsed().as_secs_f64();
        report(ctx, "handle_response", "boundary-date-in-mso", r.is_err(), secs, date.as_bytes(), r.as_ref().err().map(|s| s.as_str()).unwrap_or(""));
    }
    for _ in 0..(500 * budget) {
        let mut v = live.resp.clone(); for _ in 0..rng.gen_range(1..4) { mutate(&mut v, &mut rng, 0); }
        let t = Instant::now(); let r = live.deliver(&v); let secs = t.elapsed().as_secs_f64();
        report(ctx, "handle_response", "mutated-plaintext", r.is_err(), secs, &to_bytes(&v), r.as_ref().err().map(|s| s.as_str()).unwrap_or(""));
    }
    for i in 0..(200 * budget) {
        let b: Vec<u8> = if i % 2 == 0 { (0..rng.gen_range(0..90)).map(|_| rng.gen()).collect() } else { let mut v: Value = Value::Map(vec![(Value::Text("data".into()), Value::Bytes(vec![1; 40])), (Value::Text("status".into()), iv(20))]); mutate(&mut v, &mut rng, 0); to_bytes(&v) };
        let mut rd = live.sim.rdr.clone(); let b2 = b.clone();
        let (r, secs) = timed(std::panic::AssertUnwindSafe(move || rd.handle_response(&b2).errors.len()));
        report(ctx, "handle_response", "raw-bytes", r.is_err(), secs, &b, "");
    }

    // --- 5. stored states: mutated, and counters at the end of their range
    let dev_s = live.sim.dev.stringify().unwrap(); let rdr_s = live.sim.rdr.stringify().unwrap();
    for i in 0..(150 * budget) {
        let (which, s) = if i % 2 == 0 { ("device", &dev_s) } else { ("reader", &rdr_s) };
        let mut v = sess::b64_to_value(s); mutate(&mut v, &mut rng, 0);
        let enc = sess::value_to_b64(&v);
        if which == "device" {
            let (r, secs) = timed(move || match device::SessionManager::parse(enc) { Ok(mut d) => { let _ = d.handle_request(&[0xa0]); d.prepare_response(&vec![], Default::default()); let _ = d.submit_next_signature(vec![1]); let _ = d.stringify(); d.retrieve_response().is_some() } Err(_) => false });
            report(ctx, "parse:device::SessionManager", "mutated-state", r.is_err(), secs, &to_bytes(&v), r.as_ref().err().map(|s| s.as_str()).unwrap_or(""));
        } else {
            let (r, secs) = timed(move || match reader::SessionManager::parse(enc) { Ok(mut d) => { let _ = d.new_request(sess::simple_namespaces(&["a"])); let _ = d.stringify(); d.handle_response(&[0xa0]).errors.len() > 0 } Err(_) => false });
            report(ctx, "parse:reader::SessionManager", "mutated-state", r.is_err(), secs, &to_bytes(&v), r.as_ref().err().map(|s| s.as_str()).unwrap_or(""));
        }
    }
    for date in BOUNDARY_DATES {
        let mut v = sess::b64_to_value(&dev_s); set_dates(&mut v, date);
        let enc = sess::value_to_b64(&v);
        let (r, secs) = timed(move || match device::SessionManager::parse(enc) { Ok(mut d) => { let _ = d.handle_request(&[0xa0]); d.stringify().is_ok() } Err(_) => false });
        report(ctx, "parse+stringify:device::SessionManager", "boundary-date-in-stored-document", r.is_err(), secs, date.as_bytes(), r.as_ref().err().map(|s| s.as_str()).unwrap_or(""));
    }
    for ctr in [u32::MAX - 1, u32::MAX] {
        let mut v = sess::b64_to_value(&rdr_s); sess::vset(&mut v, "reader_message_counter", iv(ctr as i128)); sess::vset(&mut v, "device_message_counter", iv(ctr as i128));
        let enc = sess::value_to_b64(&v);
        let msg = live.sim.craft_device_msg(1, &[0xa0]);
        let (r, secs) = timed(move || { let mut d = reader::SessionManager::parse(enc).unwrap(); let a = d.new_request(sess::simple_namespaces(&["a"])).is_ok(); let b = d.handle_response(&msg).errors.len(); (a, b) });
        report(ctx, "reader-after-restore", "counter-at-limit", r.is_err(), secs, &ctr.to_be_bytes(), r.as_ref().err().map(|s| s.as_str()).unwrap_or(""));
        ctx.emit.corr("model:counter-limit", format!("c15.counterLimit {ctr}"), if r.is_err() { "panic".into() } else { "no-panic".into() });
        let mut v = sess::b64_to_value(&dev_s); sess::vset(&mut v, "reader_message_counter", iv(ctr as i128)); sess::vset(&mut v, "device_message_counter", iv(ctr as i128));
        let enc = sess::value_to_b64(&v);
        let msg = live.sim.craft_reader_msg(1, &[0xa0]);
        let (r, secs) = timed(move || { let mut d = device::SessionManager::parse(enc).unwrap(); let _ = d.handle_request(&msg); d.prepare_response(&vec![], Default::default()); d.retrieve_response().is_some() });
        report(ctx, "device-after-restore", "counter-at-limit", r.is_err(), secs, &ctr.to_be_bytes(), r.as_ref().err().map(|s| s.as_str()).unwrap_or(""));
    }

    // --- 6. decoding of wire structures on mutated valid encodings and raw bytes
    let samples: Vec<(&str, Vec<u8>)> = vec![("DeviceEngagement", eng_bytes.clone()), ("SessionEstablishment", live.sim.establishment.clone()), ("DeviceResponse", to_bytes(&live.resp)), ("DeviceRequest", to_bytes(&base_req)),
        ("SessionData", cbor::to_vec(&SessionData { data: Some(vec![1, 2, 3].into()), status: None }).unwrap())];
    for (ty, b) in &samples {
        let base: Value = cbor::from_slice(b).unwrap();
        for i in 0..(150 * budget) {
            let bytes = if i % 5 == 0 { (0..rng.gen_range(0..60)).map(|_| rng.gen()).collect() } else { let mut v = base.clone(); for _ in 0..rng.gen_range(1..3) { mutate(&mut v, &mut rng, 0); } to_bytes(&v) };
            let b2 = bytes.clone(); let ty2 = ty.to_string();
            let (r, secs) = timed(move || match ty2.as_str() {
                "DeviceEngagement" => cbor::from_slice::<DeviceEngagement>(&b2).is_ok(), "SessionEstablishment" => cbor::from_slice::<SessionEstablishment>(&b2).is_ok(),
                "DeviceResponse" => cbor::from_slice::<isomdl::definitions::DeviceResponse>(&b2).is_ok(), "DeviceRequest" => cbor::from_slice::<isomdl::definitions::device_request::DeviceRequest>(&b2).is_ok(),
                _ => cbor::from_slice::<SessionData>(&b2).is_ok() });
            report(ctx, &format!("decode:{ty}"), "mutant", r.is_err(), secs, &bytes, "");
        }
    }
}
