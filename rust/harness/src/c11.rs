//! C11: the harness plays the reader (with the session keys of a real established session) and
//! sends DeviceRequests with 1..3 document requests, each absent / authentic / altered in some way,
//! against four device-side trust-anchor registries.
use crate::auth::{mget, status_str};
use crate::gen::to_bytes;
use crate::sess::{self, Sim, MDL};
use crate::world::{self, Pki};
use crate::Ctx;
use ciborium::Value;
use isomdl::cbor;
use isomdl::definitions::x509::trust_anchor::{TrustAnchorRegistry, TrustPurpose};
use isomdl::definitions::x509::validation::ValidationRuleset;
use isomdl::definitions::x509::X5Chain;
use isomdl::definitions::device_request::DeviceRequest;
use isomdl::definitions::SessionData;
use p256::ecdsa::{signature::Signer, signature::Verifier, Signature, VerifyingKey};
use rand::Rng;

#[derive(Clone, Copy, Debug, PartialEq)]
enum Kind { OtherSessionAttachedOriginal, SameSessionAttachedOriginal, Absent, Authentic, SigFlipped, ItemsReencodedAfterSigning, OtherSession, OtherItems, SelfSignedReader, ExpiredReader, DsCertAsReader, WrongKey, PayloadAttached, AlgEs384, NoX5chain, X5chainInProtected,
    /// x5chain = [impostor's self-issued certificate, a genuine trusted reader certificate], signed by the impostor
    ImpostorThenGenuine,
    /// x5chain = [genuine reader certificate, some unrelated certificate], signed by the genuine reader
    GenuineThenUnrelated,
    /// a rogue reader's self-made certificate NAMING a configured reader CA whose key is not a P-256 key (issuer name and
    /// authority key identifier copied from the public CA certificate), signed with the rogue's own key
    RogueNamingP384Ca }
const KINDS: [Kind; 19] = [Kind::RogueNamingP384Ca, Kind::ImpostorThenGenuine, Kind::GenuineThenUnrelated, Kind::OtherSessionAttachedOriginal, Kind::SameSessionAttachedOriginal, Kind::Absent, Kind::Authentic, Kind::SigFlipped, Kind::ItemsReencodedAfterSigning, Kind::OtherSession, Kind::OtherItems, Kind::SelfSignedReader, Kind::ExpiredReader,
    Kind::DsCertAsReader, Kind::WrongKey, Kind::PayloadAttached, Kind::AlgEs384, Kind::NoX5chain, Kind::X5chainInProtected];

fn der(c: &x509_cert::Certificate) -> Vec<u8> { use der::Encode; c.to_der().unwrap() }

/// a reader CA whose key is a P-384 key (certificate, subject key identifier)
fn p384_ca(pki: &Pki) -> (x509_cert::Certificate, Vec<u8>) {
    let point: Vec<u8> = std::iter::once(4u8).chain((0..96).map(|i| (i * 3 + 2) as u8)).collect();
    world::with_p384_key(&world::root_spec("CN=readerca384,C=US", &pki.reader_ca_key), &point, &pki.reader_ca_key)
}

fn items_request(doc_type: &str, elems: &[&str], indefinite: bool) -> Vec<u8> {
    let ns = Value::Map(elems.iter().map(|e| (Value::Text(e.to_string()), Value::Bool(false))).collect());
    let v = Value::Map(vec![(Value::Text("docType".into()), Value::Text(doc_type.into())), (Value::Text("nameSpaces".into()), Value::Map(vec![(Value::Text(sess::NS.into()), ns)]))]);
    let mut b = to_bytes(&v);
    if indefinite { b[0] = 0xbf; b.push(0xff); } // same map, indefinite length: different bytes, same meaning
    b
}

fn reader_auth_tbs(transcript: &Value, items_bytes: &[u8], prot: &[u8]) -> Vec<u8> {
    let ra = Value::Array(vec![Value::Text("ReaderAuthentication".into()), transcript.clone(), Value::Tag(24, Box::new(Value::Bytes(items_bytes.to_vec())))]);
    let ra_bytes = to_bytes(&Value::Tag(24, Box::new(Value::Bytes(to_bytes(&ra)))));
    to_bytes(&Value::Array(vec![Value::Text("Signature1".into()), Value::Bytes(prot.to_vec()), Value::Bytes(vec![]), Value::Bytes(ra_bytes)]))
}

struct Built { doc_request: Value, facts: String, /// (transcript-independent part of) the model's own signature check: (first certificate key x||y or "-", harness verdict)
    sig_check: Option<(String, bool)> }

#[allow(clippy::too_many_arguments)]
fn build(kind: Kind, idx: usize, pki: &Pki, transcript: &Value, other_transcript: &Value, registry: &TrustAnchorRegistry, rng: &mut rand_chacha::ChaCha8Rng) -> Built {
    let doc_type = if idx == 0 { MDL.to_string() } else { format!("org.example.doc{idx}") };
    let mut items = items_request(&doc_type, &["family_name", "age_over_18"], false);
    let t = |b: bool| if b { "t" } else { "f" };
    if kind == Kind::Absent {
        let dr = Value::Map(vec![(Value::Text("itemsRequest".into()), Value::Tag(24, Box::new(Value::Bytes(items))))]);
        return Built { doc_request: dr, facts: "p=f;x5p=f;x5ok=f;chain=0;key=f;alg=absent;att=f;sp=f;sa=f".into(), sig_check: None };
    }
    let mut prot: Vec<u8> = vec![0xa1, 0x01, 0x26];
    if kind == Kind::AlgEs384 { prot = vec![0xa1, 0x01, 0x38, 0x22]; }
    let mut cert = pki.reader.clone();
    let mut key = pki.reader_key.clone();
    match kind {
        Kind::SelfSignedReader => { cert = world::build_cert(&world::leaf_spec("CN=reader,C=US", "CN=reader,C=US", &pki.reader_key, &pki.reader_key, world::EKU_READER), &pki.reader_key, &pki.reader_key); }
        Kind::ExpiredReader => { let mut s = world::leaf_spec("CN=reader,C=US", "CN=readerca,C=US", &pki.reader_key, &pki.reader_ca_key, world::EKU_READER); s.not_before = -7200; s.not_after = -3600; cert = world::build_cert(&s, &pki.reader_key, &pki.reader_ca_key); }
        Kind::DsCertAsReader => { cert = pki.ds.clone(); key = pki.ds_key.clone(); }
        Kind::WrongKey => { key = world::key_from(rng); }
        Kind::RogueNamingP384Ca => { key = world::key_from(rng);
            let mut sp = world::leaf_spec("CN=reader,C=US", "CN=readerca384,C=US", &key, &key, world::EKU_READER);
            for e in sp.exts.iter_mut() { if e.oid == world::OID_AKI { *e = world::ext_aki(&p384_ca(pki).1); } }
            cert = world::build_cert(&sp, &key, &key); }
        Kind::ImpostorThenGenuine => { key = world::key_from(rng); cert = world::build_cert(&world::leaf_spec("CN=reader,C=US", "CN=reader,C=US", &key, &key, world::EKU_READER), &key, &key); }
        _ => {}
    }
    // further certificates after the first one (the property speaks of the FIRST certificate only)
    let tail: Vec<x509_cert::Certificate> = match kind {
        Kind::ImpostorThenGenuine => vec![pki.reader.clone()],
        Kind::GenuineThenUnrelated => { let k2 = world::key_from(rng); vec![world::build_cert(&world::leaf_spec("CN=other,C=US", "CN=other,C=US", &k2, &k2, world::EKU_READER), &k2, &k2)] }
        _ => vec![] };
    let x5_value = if tail.is_empty() { Value::Bytes(der(&cert)) } else { Value::Array(std::iter::once(&cert).chain(tail.iter()).map(|c| Value::Bytes(der(c))).collect()) };
    let sign_transcript = if kind == Kind::OtherSession || kind == Kind::OtherSessionAttachedOriginal { other_transcript } else { transcript };
    let sign_items = if kind == Kind::OtherItems { items_request(&doc_type, &["portrait"], false) } else { items.clone() };
    if kind == Kind::X5chainInProtected { prot = to_bytes(&Value::Map(vec![(Value::Integer(1.into()), Value::Integer((-7).into())), (Value::Integer(33.into()), Value::Bytes(der(&cert)))])); }
    let tbs_signed = reader_auth_tbs(sign_transcript, &sign_items, &prot);
    let sig: Signature = key.sign(&tbs_signed);
    let mut sig_bytes = sig.to_vec();
    if kind == Kind::SigFlipped { let i = rng.gen_range(0..64); sig_bytes[i] ^= 1 << rng.gen_range(0..8); }
    if kind == Kind::ItemsReencodedAfterSigning { items = items_request(&doc_type, &["family_name", "age_over_18"], true); }
    let unprot = if kind == Kind::NoX5chain || kind == Kind::X5chainInProtected { Value::Map(vec![]) } else { Value::Map(vec![(Value::Integer(33.into()), x5_value.clone())]) };
    // the bytes that were actually signed, placed in the (normally nil) payload slot
    let signed_ra = { let ra = Value::Array(vec![Value::Text("ReaderAuthentication".into()), sign_transcript.clone(), Value::Tag(24, Box::new(Value::Bytes(sign_items.clone())))]);
        to_bytes(&Value::Tag(24, Box::new(Value::Bytes(to_bytes(&ra))))) };
    let attached_original = kind == Kind::OtherSessionAttachedOriginal || kind == Kind::SameSessionAttachedOriginal;
    let payload = if kind == Kind::PayloadAttached { Value::Bytes(vec![1, 2, 3]) } else if attached_original { Value::Bytes(signed_ra) } else { Value::Null };
    let reader_auth = Value::Array(vec![Value::Bytes(prot.clone()), unprot.clone(), payload, Value::Bytes(sig_bytes.clone())]);
    let dr = Value::Map(vec![(Value::Text("itemsRequest".into()), Value::Tag(24, Box::new(Value::Bytes(items.clone())))), (Value::Text("readerAuth".into()), reader_auth)]);
    // facts, independently
    let x5p = unprot.as_map().map(|m| !m.is_empty()).unwrap_or(false);
    // facts about the FIRST certificate alone: it is validated as a one-certificate chain
    let chain = if x5p && X5Chain::from_cbor(x5_value.clone()).is_ok() { X5Chain::from_cbor(Value::Bytes(der(&cert))).ok() } else { None };
    let chain_errs = chain.as_ref().map(|c| ValidationRuleset::MdlReaderOneStep.validate(c, registry).errors.len()).unwrap_or(0);
    // the decisive part of "validates against a configured reader-CA trust anchor", computed here and not by the library: the
    // first certificate's signature verifies under the P-256 key of some configured reader-CA anchor
    let anchored = { use der::Encode; let tbs = cert.tbs_certificate.to_der().unwrap(); let sig = p256::ecdsa::Signature::from_der(cert.signature.raw_bytes());
        registry.anchors.iter().any(|a| matches!(a.purpose, TrustPurpose::ReaderCa) && sig.as_ref().map(|s| VerifyingKey::from_sec1_bytes(a.certificate.tbs_certificate.subject_public_key_info.subject_public_key.raw_bytes()).map(|k| k.verify(&tbs, s).is_ok()).unwrap_or(false)).unwrap_or(false)) };
    let chain_errs = if chain.is_some() && !anchored { chain_errs.max(1) } else { chain_errs };
    let vk: Option<VerifyingKey> = chain.as_ref().and_then(|c| c.end_entity_public_key::<p256::NistP256>().ok());
    let tbs_device = reader_auth_tbs(transcript, &items, &prot);
    let sp = Signature::from_slice(&sig_bytes);
    let sa = match (&sp, &vk) { (Ok(s), Some(k)) => k.verify(&tbs_device, s).is_ok(), _ => false };
    let alg = if prot == vec![0xa1, 0x01, 0x38, 0x22] { "a:-35" } else { "a:-7" };
    let key_hex = vk.as_ref().map(|k| { use p256::elliptic_curve::sec1::ToEncodedPoint; let p = k.to_encoded_point(false); let mut v = p.x().unwrap().to_vec(); v.extend_from_slice(p.y().unwrap()); hex::encode(v) }).unwrap_or("-".into());
    Built { doc_request: dr, sig_check: Some((key_hex, sa)), facts: format!("p=t;x5p={};x5ok={};chain={};key={};alg={};att={};sp={};sa={}", t(x5p), t(chain.is_some()), chain_errs, t(vk.is_some()), alg, t(kind == Kind::PayloadAttached || attached_original), t(sp.is_ok()), t(sa)) }
}

pub fn run(ctx: &mut Ctx) {
    let pki = Pki::new(&mut ctx.rng); let other = Pki::new(&mut ctx.rng);
    let mut rng: rand_chacha::ChaCha8Rng = rand::SeedableRng::seed_from_u64(ctx.rng.gen());
    let regs: Vec<(&str, TrustAnchorRegistry)> = vec![("right-reader-ca", pki.reader_registry()), ("empty", TrustAnchorRegistry::default()),
        ("iaca-purpose-only", pki.registry(&[(&pki.reader_ca, TrustPurpose::Iaca), (&pki.iaca, TrustPurpose::Iaca)])), ("unrelated-reader-ca", other.reader_registry()),
        ("right-reader-ca-and-a-p384-reader-ca", pki.registry(&[(&pki.reader_ca, TrustPurpose::ReaderCa), (&p384_ca(&pki).0, TrustPurpose::ReaderCa)]))];
    for (rname, reg) in regs {
        let sim = Sim::new(1, &pki, &mut rng, &[MDL], &["family_name"], TrustAnchorRegistry::default(), reg.clone());
        let sim_b = Sim::new(2, &pki, &mut rng, &[MDL], &["family_name"], TrustAnchorRegistry::default(), reg.clone());
        let transcript_of = |s: &Sim| { let eng = base64::decode_config(s.qr.strip_prefix("mdoc:").unwrap(), base64::URL_SAFE_NO_PAD).unwrap(); let est: Value = cbor::from_slice(&s.establishment).unwrap();
            Value::Array(vec![Value::Tag(24, Box::new(Value::Bytes(eng))), mget(&est, "eReaderKey").cloned().unwrap(), Value::Null]) };
        let (tr, tr_b) = (transcript_of(&sim), transcript_of(&sim_b));
        // all patterns for one and two document requests, sampled for three
        let mut patterns: Vec<Vec<Kind>> = KINDS.iter().map(|k| vec![*k]).collect();
        for a in KINDS { for b in KINDS { if ctx.thorough || matches!(a, Kind::Absent | Kind::Authentic | Kind::SigFlipped | Kind::OtherSession) || matches!(b, Kind::Absent | Kind::Authentic | Kind::WrongKey) { patterns.push(vec![a, b]); } } }
        for _ in 0..(if ctx.thorough { 400 } else { 40 }) { patterns.push((0..3).map(|_| KINDS[rng.gen_range(0..KINDS.len())]).collect()); }
        patterns.push(vec![Kind::Authentic, Kind::Authentic, Kind::Authentic]); patterns.push(vec![Kind::Authentic, Kind::Authentic, Kind::Absent]);
        for pat in patterns {
            let built: Vec<Built> = pat.iter().enumerate().map(|(i, k)| build(*k, i, &pki, &tr, &tr_b, &reg, &mut rng)).collect();
            let req = Value::Map(vec![(Value::Text("version".into()), Value::Text("1.0".into())), (Value::Text("docRequests".into()), Value::Array(built.iter().map(|b| b.doc_request.clone()).collect()))]);
            let pt = to_bytes(&req);
            let decodes = cbor::from_slice::<DeviceRequest>(&pt).is_ok();
            let n = sess::peek_device(&sim.dev).rdr_ctr + 1;
            let ct = sess::aes_enc(&sim.sk_reader, &sess::iv_bytes(true, n), &pt);
            let msg = cbor::to_vec(&SessionData { data: Some(ct.into()), status: None }).unwrap();
            let mut dev = sim.dev.clone();
            let r = crate::guarded(std::panic::AssertUnwindSafe(move || dev.handle_request(&msg)));
            let real = match &r { Err(_) => "panic".to_string(), Ok(o) => status_str(&o.reader_authentication).to_string() };
            let facts: Vec<String> = built.iter().map(|b| b.facts.clone()).collect();
            let case = serde_json::json!({"registry": rname, "pattern": format!("{:?}", pat), "real": real, "msg_hex": hex::encode(&pt)});
            if !decodes { continue; }
            // the model's own ECDSA over its own Sig_structure(ReaderAuthenticationBytes) against the harness's verdict, per document request
            if pat.len() == 1 || ctx.thorough { for b in &built { if let Some((key, sa)) = &b.sig_check {
                ctx.emit.line("corr", &format!("{rname}:readersig"), format!("facts.readersig {} {} {key}", hex::encode(to_bytes(&b.doc_request)), hex::encode(to_bytes(&tr))), (if *sa { "t" } else { "f" }).to_string(), case.clone()); } } }
            ctx.emit.line("corr", &format!("{rname}:n{}", pat.len()), format!("req.status t {}", facts.join(" ")), real.clone(), case.clone());
            if real != "panic" { ctx.emit.line("spec", &format!("spec:{rname}:n{}", pat.len()), format!("spec.c11 {real} {}", facts.join(" ")), "true".into(), case); }
        }
        // undecryptable / undecodable requests are Unchecked
        { let mut dev = sim.dev.clone(); let o = dev.handle_request(&cbor::to_vec(&SessionData { data: Some(vec![1, 2, 3].into()), status: None }).unwrap());
          ctx.emit.corr(&format!("{rname}:undecryptable"), "req.status f".into(), status_str(&o.reader_authentication).into()); }
    }
}
