//! C16: type-directed round trips of every wire type.
//! For each generated value x: b1 = to_vec(x); y = from_slice(b1); b2 = to_vec(y).
//!   Spec(real): b1 == b2 (fixed point) and Debug(x) == Debug(y) (same value).
//!   corr: Lean re-encodes b1 at the CBOR layer (`cbor.rt`) and, for modelled types, through the typed
//!   model (`wire.*`): both must reproduce b1.
use crate::gen::{gen_text, gen_value, to_bytes};
use crate::world::{self, Pki};
use crate::{hex_or_dash, Ctx};
use ciborium::Value;
use isomdl::cbor;
use isomdl::definitions::device_engagement::{DeviceRetrievalMethod, ServerRetrievalMethods};
use isomdl::definitions::device_key::cose_key::{CoseKey, EC2Curve, OKPCurve, EC2Y};
use isomdl::definitions::device_request::{DeviceRequest, DocRequest, ItemsRequest};
use isomdl::definitions::device_response::{DocumentErrorCode, Status as RespStatus};
use isomdl::definitions::helpers::{ByteStr, NonEmptyMap, NonEmptyVec, Tag24};
use isomdl::definitions::session::{Handover, Status as SessStatus};
use isomdl::definitions::{DeviceEngagement, DeviceKeyInfo, DeviceResponse, DigestAlgorithm, DigestId, IssuerSigned, IssuerSignedItem,
    KeyAuthorizations, Mso, SessionData, SessionEstablishment, SessionTranscript180135, ValidityInfo};
use rand::Rng;
use serde::{de::DeserializeOwned, Serialize};
use std::fmt::Debug;

fn rt<T: Serialize + DeserializeOwned + Debug>(ctx: &mut Ctx, ty: &str, x: &T, modelled: Option<&str>) {
    let b1 = match cbor::to_vec(x) { Ok(b) => b, Err(e) => { ctx.emit.line("spec", &format!("spec:{ty}:encodes"), "spec.eq encode-error ok".into(), "true".into(), serde_json::json!({"type": ty, "error": e.to_string()})); return; } };
    let y: Result<T, _> = cbor::from_slice(&b1);
    // types that embed validity times (normalised to UTC seconds on emission) or COSE headers (original
    // bytes cached on decode) are compared after one normalising round: decode(encode(y)) must equal y
    let normalising = ["Mso", "IssuerSigned", "Mdoc", "device::Document"].contains(&ty);
    let (same, b2) = match &y { Ok(y) => {
            let b2 = cbor::to_vec(y).unwrap_or_default();
            let same = if normalising { cbor::from_slice::<T>(&b2).map(|z| format!("{:?}", z) == format!("{:?}", y)).unwrap_or(false) } else { format!("{:?}", y) == format!("{:?}", x) };
            (same, b2) }
        Err(_) => (false, vec![]) };
    let case = serde_json::json!({"type": ty, "value": format!("{:?}", x).chars().take(300).collect::<String>(), "msg_hex": hex::encode(&b1)});
    ctx.emit.line("spec", &format!("spec:{ty}:decodes-to-same-value"), format!("spec.eq {} true", same), "true".into(), case.clone());
    ctx.emit.line("spec", &format!("spec:{ty}:fixed-point"), format!("spec.eq {} {}", hex_or_dash(&b1), hex_or_dash(&b2)), "true".into(), case.clone());
    ctx.emit.line("corr", &format!("{ty}:cbor-layer"), format!("cbor.rt {}", hex_or_dash(&b1)), hex_or_dash(&b1), case.clone());
    if let Some(op) = modelled { ctx.emit.line("corr", &format!("{ty}:typed-model"), format!("wire.{op} {}", hex_or_dash(&b1)), hex_or_dash(&b1), case.clone()); }
    // the generic schema model (Model/Schema.lean + WireSchemas.lean): typed decode-and-re-encode of the SAME bytes and of
    // foreign presentations of them (reversed map order everywhere outside embedded items, an unknown entry, explicit nulls for
    // absent optional fields) must equal what the library re-encodes; what the library emits must satisfy the schema's validator
    const SCHEMAS: [&str; 17] = ["SessionData", "SessionEstablishment", "CoseKey", "ItemsRequest", "DocRequest", "DeviceRequest", "IssuerSignedItem", "IssuerSigned",
        "DeviceSigned", "Document", "DeviceResponse", "ValidityInfo", "KeyAuthorizations", "DeviceKeyInfo", "Mso", "DeviceEngagement", "Handover"];
    if !SCHEMAS.contains(&ty) || b2.is_empty() { return; }
    let real_of = |bytes: &[u8]| -> String { match crate::guarded({ let b = bytes.to_vec(); move || cbor::from_slice::<T>(&b).ok().and_then(|y| cbor::to_vec(&y).ok()) }) {
        Ok(Some(b)) => format!("ok {}", hex::encode(b)), Ok(None) => "err".into(), Err(_) => "panic".into() } };
    ctx.emit.line("corr", &format!("{ty}:schema-norm"), format!("schema.norm {ty} {}", hex::encode(&b1)), real_of(&b1), case.clone());
    ctx.emit.line("spec", &format!("spec:{ty}:schema-conformance"), format!("spec.schema.conf {ty} {}", hex::encode(&b2)), "true".into(), case.clone());
    if let Ok(v) = cbor::from_slice::<ciborium::Value>(&b1) {
        fn reversed(v: &ciborium::Value) -> ciborium::Value { use ciborium::Value as V; match v {
            V::Map(m) => V::Map(m.iter().rev().map(|(k, x)| (k.clone(), reversed(x))).collect()), V::Array(a) => V::Array(a.iter().map(reversed).collect()),
            V::Tag(24, _) => v.clone(), V::Tag(t, x) => V::Tag(*t, Box::new(reversed(x))), other => other.clone() } }
        let optional: &[&str] = match ty { "SessionData" => &["data", "status"], "DeviceResponse" => &["documents", "documentErrors"], "Document" => &["errors"], "DocRequest" => &["readerAuth"],
            "ItemsRequest" => &["requestInfo"], "IssuerSigned" => &["nameSpaces"], "DeviceKeyInfo" => &["keyAuthorizations", "keyInfo"], "KeyAuthorizations" => &["nameSpaces", "dataElements"], _ => &[] };
        let mut variants: Vec<(&str, ciborium::Value)> = vec![("reversed-maps", reversed(&v))];
        if let ciborium::Value::Map(m) = &v {
            let int_keys = m.first().map(|(k, _)| k.is_integer()).unwrap_or(false);
            let mut m2 = m.clone(); m2.insert(0, (if int_keys { ciborium::Value::Integer(99.into()) } else { ciborium::Value::Text("zzUnknown".into()) }, ciborium::Value::Integer(1.into())));
            variants.push(("unknown-entry", ciborium::Value::Map(m2)));
            let mut m3 = m.clone(); let mut added = false;
            for o in optional { if !m.iter().any(|(k, _)| k.as_text() == Some(o)) { m3.push((ciborium::Value::Text(o.to_string()), ciborium::Value::Null)); added = true; } }
            if added { variants.push(("null-options", ciborium::Value::Map(m3))); }
        }
        for (what, fv) in variants {
            let fb = crate::gen::to_bytes(&fv);
            if fb == b1 { continue; }
            ctx.emit.line("corr", &format!("{ty}:schema-norm:{what}"), format!("schema.norm {ty} {}", hex::encode(&fb)), real_of(&fb), serde_json::json!({"type": ty, "variant": what, "msg_hex": hex::encode(&fb)}));
        }
    }
}

fn gen_cose_key(rng: &mut impl Rng) -> CoseKey {
    let len = |rng: &mut dyn rand::RngCore| -> usize { [0usize, 1, 31, 32, 33, 48, 66][rng.gen_range(0..7)] };
    // boundary coordinates: leading zero bytes (unsigned big-endian integers must keep their length), all zero, all 0xff
    let bytes = |rng: &mut dyn rand::RngCore, n: usize| -> Vec<u8> {
        let mut v: Vec<u8> = (0..n).map(|_| rng.gen()).collect();
        match rng.gen_range(0..8u8) { 0 => { if n > 0 { v[0] = 0; } } 1 => { for b in v.iter_mut().take(3) { *b = 0; } } 2 => { for b in v.iter_mut() { *b = 0; } } 3 => { for b in v.iter_mut() { *b = 0xff; } } _ => {} }
        v };
    // genuine P-256 points too (random coordinates are practically never on the curve): explicit y, and point-compressed with either sign bit
    if rng.gen_bool(0.2) {
        use p256::elliptic_curve::sec1::ToEncodedPoint;
        let scalar: [u8; 32] = { let mut b = [0u8; 32]; rng.fill_bytes(&mut b); b[0] &= 0x7f; b[31] |= 1; b };
        let pt = p256::SecretKey::from_slice(&scalar).unwrap().public_key().to_encoded_point(false);
        let (x, y) = (pt.x().unwrap().to_vec(), pt.y().unwrap().to_vec());
        return CoseKey::EC2 { crv: EC2Curve::P256, x, y: match rng.gen_range(0..3u8) { 0 => EC2Y::Value(y), 1 => EC2Y::SignBit(y[31] & 1 == 1), _ => EC2Y::SignBit(y[31] & 1 == 0) } };
    }
    if rng.gen_bool(0.65) {
        let crv = [EC2Curve::P256, EC2Curve::P384, EC2Curve::P521, EC2Curve::P256K][rng.gen_range(0..4)].clone();
        let n = len(rng); let x = bytes(rng, n);
        let y = if rng.gen_bool(0.7) { let n = len(rng); EC2Y::Value(bytes(rng, n)) } else { EC2Y::SignBit(rng.gen()) };
        CoseKey::EC2 { crv, x, y }
    } else {
        let crv = [OKPCurve::X25519, OKPCurve::X448, OKPCurve::Ed25519, OKPCurve::Ed448][rng.gen_range(0..4)].clone();
        let n = len(rng); CoseKey::OKP { crv, x: bytes(rng, n) }
    }
}

fn gen_items_request(rng: &mut rand_chacha::ChaCha8Rng) -> ItemsRequest {
    let mut nss: Option<isomdl::definitions::device_request::Namespaces> = None;
    for i in 0..rng.gen_range(1..4) {
        let mut els: Option<isomdl::definitions::device_request::DataElements> = None;
        for j in 0..rng.gen_range(1..5) { let k = format!("e{j}{}", gen_text(rng, 6)); match els.as_mut() { None => els = Some(NonEmptyMap::new(k, rng.gen())), Some(m) => { m.insert(k, rng.gen()); } } }
        let k = format!("ns{i}{}", gen_text(rng, 6));
        match nss.as_mut() { None => nss = Some(NonEmptyMap::new(k, els.unwrap())), Some(m) => { m.insert(k, els.unwrap()); } }
    }
    let request_info = if rng.gen_bool(0.3) { Some((0..rng.gen_range(0..3)).map(|i| (format!("i{i}"), gen_value(rng, 1))).collect()) } else { None };
    ItemsRequest { doc_type: gen_text(rng, 20), namespaces: nss.unwrap(), request_info }
}

pub fn run(ctx: &mut Ctx) {
    let n = if ctx.thorough { 3000 } else { 60 };
    let pki = Pki::new(&mut ctx.rng);
    let mut rng: rand_chacha::ChaCha8Rng = rand::SeedableRng::seed_from_u64(ctx.rng.gen());
    // --- code tables over their whole neighbourhood
    for k in 0..40u64 {
        let real = match SessStatus::try_from(k) { Ok(s) => format!("ok {}", u64::from(s)), Err(_) => "rejected".into() };
        ctx.emit.corr("sessionStatus:table", format!("wire.sessionStatus {k}"), real);
        let real = match RespStatus::try_from(k) { Ok(s) => format!("ok {}", u64::from(s)), Err(_) => "rejected".into() };
        ctx.emit.corr("responseStatus:table", format!("wire.responseStatus {k}"), real);
    }
    for k in [i128::from(i64::MIN), -65537, -256, -25, -2, -1, 0, 1, 2, 10, 255, i128::from(i64::MAX)] {
        let real = match DocumentErrorCode::try_from(k) { Ok(c) => format!("ok {}", i128::from(c)), Err(_) => "rejected".into() };
        ctx.emit.corr("errorCode:table", format!("wire.errorCode {k}"), real);
    }
    for s in [SessStatus::SessionEncryptionError, SessStatus::CborDecodingError, SessStatus::SessionTermination] { rt(ctx, "SessionStatus", &s, None); }
    for s in [RespStatus::OK, RespStatus::GeneralError, RespStatus::CborDecodingError, RespStatus::CborValidationError] { rt(ctx, "ResponseStatus", &s, None); }
    for a in [DigestAlgorithm::SHA256, DigestAlgorithm::SHA384, DigestAlgorithm::SHA512] { rt(ctx, "DigestAlgorithm", &a, None); }
    for i in [0i32, 1, 23, 24, 255, 256, 65535, 65536, i32::MAX] { rt(ctx, "DigestId", &DigestId::new(i), None); }
    // --- a real issued document as a source of nested structures
    let key = world::key_from(&mut rng);
    for k in 0..n {
        // SessionData: every presence combination
        // data: absent, or present with a length from the boundaries (the EMPTY byte string is a value of its own, not "absent") or any
        let dlen = if k % 4 == 0 { [0usize, 1, 16, 23, 24, 255, 256][(k / 4) % 7] } else { rng.gen_range(0..300) };
        let data = if k % 2 == 0 { Some(ByteStr::from((0..dlen).map(|_| rng.gen()).collect::<Vec<u8>>())) } else { None };
        let status = match k % 4 { 0 => None, 1 => Some(SessStatus::SessionEncryptionError), 2 => Some(SessStatus::CborDecodingError), _ => Some(SessStatus::SessionTermination) };
        rt(ctx, "SessionData", &SessionData { data, status }, Some("sessionData"));
        // CoseKey incl. odd lengths and every curve
        let ck = gen_cose_key(&mut rng);
        rt(ctx, "CoseKey", &ck, Some("coseKey"));
        // JWK conversion keeps curve and coordinates
        {
            let jwk: Result<ssi_free::Jwk, _> = ssi_free::to_jwk(&ck);
            match jwk {
                Ok(j) => {
                    let back = ssi_free::from_jwk(&j.raw);
                    let same = back.as_ref().map(|b| b == &ck).unwrap_or(false);
                    ctx.emit.line("spec", "spec:CoseKey:jwk-roundtrip", format!("spec.eq {} true", same), "true".into(), serde_json::json!({"key": format!("{:?}", ck)}));
                    ctx.emit.line("spec", "spec:CoseKey:jwk-fields", format!("spec.jwk {} {} {} {}", hex::encode(cbor::to_vec(&ck).unwrap()), j.crv, hex_or_dash(&j.x), hex_or_dash(&j.y)), "true".into(),
                        serde_json::json!({"key": format!("{:?}", ck), "jwk_crv": j.crv}));
                }
                Err(_) => {
                    // only point-compressed EC2 keys may be refused
                    let compressed = matches!(ck, CoseKey::EC2 { y: EC2Y::SignBit(_), .. });
                    ctx.emit.line("spec", "spec:CoseKey:jwk-refusal", format!("spec.eq {} true", compressed), "true".into(), serde_json::json!({"key": format!("{:?}", ck)}));
                }
            }
        }
        // SessionEstablishment
        let se = SessionEstablishment { e_reader_key: Tag24::new(gen_cose_key(&mut rng)).unwrap(), data: ByteStr::from((0..rng.gen_range(0..100)).map(|_| rng.gen()).collect::<Vec<u8>>()) };
        rt(ctx, "SessionEstablishment", &se, Some("sessionEstablishment"));
        // Handover and transcript
        let ho = match k % 5 { 0 => Handover::QR, 1 => Handover::NFC(ByteStr::from(vec![1, 2, 3]), None), 2 => Handover::NFC(ByteStr::from(vec![]), Some(ByteStr::from(vec![9; 40]))),
            _ => Handover::OID4VP(gen_text(&mut rng, 20), gen_text(&mut rng, 20)) };
        rt(ctx, "Handover", &ho, None);
        // requests
        let ir = gen_items_request(&mut rng);
        rt(ctx, "ItemsRequest", &ir, None);
        let mut drs = NonEmptyVec::new(DocRequest { items_request: Tag24::new(ir).unwrap(), reader_auth: None });
        for _ in 0..rng.gen_range(0..3) { drs.push(DocRequest { items_request: Tag24::new(gen_items_request(&mut rng)).unwrap(), reader_auth: None }); }
        rt(ctx, "DocRequest", &drs[0].clone(), None);
        rt(ctx, "DeviceRequest", &DeviceRequest { version: "1.0".into(), doc_requests: drs }, None);
        // validity: offsets and sub-second parts; emitted text must denote floor(instant) in UTC
        let base = time::OffsetDateTime::from_unix_timestamp(rng.gen_range(-2_000_000_000i64..4_000_000_000)).unwrap();
        let mk = |rng: &mut rand_chacha::ChaCha8Rng, t: time::OffsetDateTime| { let off = time::UtcOffset::from_hms(rng.gen_range(-12..13), if rng.gen_bool(0.5) { 0 } else { 30 } * if rng.gen_bool(0.5) { 1 } else { 0 }, 0).unwrap_or(time::UtcOffset::UTC);
            // sub-second part: boundaries of every unit (none, 1 ns, below / at one microsecond and one millisecond, the last nanosecond) or anything
            const NS: [i64; 12] = [0, 1, 999, 1_000, 250_000, 999_999, 1_000_000, 1_000_001, 1_999_999, 500_000_000, 999_000_000, 999_999_999];
            let ns = if rng.gen_bool(0.5) { NS[rng.gen_range(0..NS.len())] } else { rng.gen_range(0..1_000_000_000) };
            (t + time::Duration::nanoseconds(ns)).to_offset(off) };
        let vi = ValidityInfo { signed: mk(&mut rng, base), valid_from: mk(&mut rng, base), valid_until: mk(&mut rng, base + time::Duration::days(300)),
            expected_update: if k % 2 == 0 { Some(mk(&mut rng, base + time::Duration::days(100))) } else { None } };
        if let Ok(Value::Map(m)) = cbor::into_value(vi.clone()) {
            for (name, t) in [("signed", Some(vi.signed)), ("validFrom", Some(vi.valid_from)), ("validUntil", Some(vi.valid_until)), ("expectedUpdate", vi.expected_update)] {
                let Some(t) = t else { continue };
                let txt = m.iter().find(|(kk, _)| kk.as_text() == Some(name)).and_then(|(_, v)| match v { Value::Tag(0, b) => b.as_text().map(|s| s.to_string()), _ => None }).unwrap_or_default();
                ctx.emit.line("spec", "spec:ValidityInfo:utc-no-fraction-same-second", format!("spec.tdate {} {}", hex_or_dash(txt.as_bytes()), t.unix_timestamp()), "true".into(),
                    serde_json::json!({"field": name, "input": t.to_string(), "emitted": txt}));
            }
        }
        // a ValidityInfo round-trips up to the second/UTC normalisation: compare the re-encoded bytes only
        {
            let b1 = cbor::to_vec(&vi).unwrap(); let y: ValidityInfo = cbor::from_slice(&b1).unwrap(); let b2 = cbor::to_vec(&y).unwrap();
            ctx.emit.line("spec", "spec:ValidityInfo:fixed-point", format!("spec.eq {} {}", hex::encode(&b1), hex::encode(&b2)), "true".into(), serde_json::json!({"msg_hex": hex::encode(&b1)}));
            ctx.emit.corr("ValidityInfo:cbor-layer", format!("cbor.rt {}", hex::encode(&b1)), hex::encode(&b1));
            rt(ctx, "ValidityInfo", &y, None);
        }
        // key info
        let auth = match k % 4 { 0 => None, 1 => Some(KeyAuthorizations { namespaces: Some(NonEmptyVec::new(gen_text(&mut rng, 9))), data_elements: None }),
            2 => Some(KeyAuthorizations { namespaces: None, data_elements: Some(NonEmptyMap::new(gen_text(&mut rng, 9), NonEmptyVec::new(gen_text(&mut rng, 5)))) }), _ => Some(KeyAuthorizations::default()) };
        let key_info = if k % 3 == 0 { Some((0..rng.gen_range(0..3)).map(|i| (i as i128 - 1, gen_value(&mut rng, 1))).collect()) } else { None };
        if let Some(a) = &auth { rt(ctx, "KeyAuthorizations", a, None); }
        let dki = DeviceKeyInfo { device_key: gen_cose_key(&mut rng), key_authorizations: auth, key_info };
        rt(ctx, "DeviceKeyInfo", &dki, None);
        // engagement options
        let iv = |i: i128| Value::Integer((i as i64).into());
        let drm_v = match k % 6 {
            0 => Value::Array(vec![iv(2), iv(1), Value::Map(vec![(iv(0), Value::Bool(false)), (iv(1), Value::Bool(true)), (iv(11), Value::Bytes((0..16).map(|_| rng.gen()).collect()))])]),
            1 => Value::Array(vec![iv(2), iv(1), Value::Map(vec![(iv(0), Value::Bool(true)), (iv(1), Value::Bool(true)), (iv(10), Value::Bytes(vec![5; 16])), (iv(11), Value::Bytes(vec![6; 16])), (iv(20), Value::Bytes(vec![1, 2, 3, 4, 5, 6]))])]),
            2 => Value::Array(vec![iv(1), iv(1), Value::Map(vec![(iv(0), iv(rng.gen_range(255..=65535))), (iv(1), iv(rng.gen_range(256..5_000_000)))])]),
            3 => Value::Array(vec![iv(3), iv(1), Value::Map(vec![(iv(0), Value::Text(gen_text(&mut rng, 10))), (iv(3), Value::Bytes(vec![1]))])]),
            4 => Value::Array(vec![iv(3), iv(1), Value::Map(vec![(iv(1), iv(rng.gen_range(0..1000))), (iv(2), iv(rng.gen_range(0..100000)))])]),
            _ => Value::Array(vec![iv(3), iv(1), Value::Map(vec![])]),
        };
        if let Ok(drm) = cbor::from_value::<DeviceRetrievalMethod>(drm_v.clone()) {
            rt(ctx, "DeviceRetrievalMethod", &drm, None);
            let srm = if k % 3 == 0 { cbor::from_value::<ServerRetrievalMethods>(Value::Map(vec![(Value::Text("webApi".into()), Value::Array(vec![iv(1), Value::Text(gen_text(&mut rng, 9)), Value::Text(gen_text(&mut rng, 9))]))])).ok() } else { None };
            let de = DeviceEngagement { version: "1.0".into(), security: isomdl::definitions::device_engagement::Security(1, Tag24::new(gen_cose_key(&mut rng)).unwrap()),
                device_retrieval_methods: if k % 7 == 0 { None } else { Some(NonEmptyVec::new(drm)) }, server_retrieval_methods: srm, protocol_info: None };
            rt(ctx, "DeviceEngagement", &de, None);
            let st = SessionTranscript180135(Tag24::new(de).unwrap(), Tag24::new(gen_cose_key(&mut rng)).unwrap(), ho.clone());
            rt(ctx, "SessionTranscript", &st, None);
        } else {
            ctx.emit.line("spec", "spec:DeviceRetrievalMethod:valid-rejected", "spec.eq rejected accepted".into(), "true".into(), serde_json::json!({"value": format!("{:?}", drm_v)}));
        }
        // issued structures: Mso, IssuerSigned, items; DeviceResponse with documents and errors
        if k % 3 == 0 {
            let mut nss = std::collections::BTreeMap::new();
            nss.insert("org.iso.18013.5.1".to_string(), (0..rng.gen_range(1..6)).map(|i| (format!("el{i}"), gen_value(&mut rng, 2))).collect());
            let alg = [DigestAlgorithm::SHA256, DigestAlgorithm::SHA384, DigestAlgorithm::SHA512][k % 3];
            let mdoc = world::issue(&pki, &gen_text(&mut rng, 12), nss, alg, k % 2 == 0, &key).unwrap();
            rt::<Mso>(ctx, "Mso", &mdoc.mso, None);
            let is = IssuerSigned { namespaces: Some(mdoc.namespaces.clone()), issuer_auth: mdoc.issuer_auth.clone() };
            rt(ctx, "IssuerSigned", &is, None);
            let item: &Tag24<IssuerSignedItem> = &mdoc.namespaces.iter().next().unwrap().1[0];
            rt(ctx, "IssuerSignedItemBytes", item, None);
            rt(ctx, "IssuerSignedItem", &item.clone().into_inner(), None);
            rt(ctx, "Mdoc", &mdoc, None);
            let doc = isomdl::presentation::device::Document::from(mdoc);
            rt(ctx, "device::Document", &doc, None);
        }
        // DeviceResponse skeletons: status x documentErrors with application-specific codes
        let derrs = if k % 2 == 0 { None } else {
            let mut v = NonEmptyVec::new([(gen_text(&mut rng, 8), DocumentErrorCode::DataNotReturned)].into_iter().collect());
            v.push([(gen_text(&mut rng, 8), DocumentErrorCode::ApplicationSpecific(-(rng.gen_range(1..100000i128))))].into_iter().collect()); Some(v) };
        let resp = DeviceResponse { version: "1.0".into(), documents: None, document_errors: derrs,
            status: [RespStatus::OK, RespStatus::GeneralError, RespStatus::CborDecodingError, RespStatus::CborValidationError][k % 4].clone() };
        rt(ctx, "DeviceResponse", &resp, None);
    }
    // --- real responses with documents (issuer-signed items, device signature, element errors)
    for i in 0..(if ctx.thorough { 12 } else { 3 }) {
        let live = crate::auth::Live::new(40 + i, &pki, &mut rng, pki.iaca_registry(), &["family_name", "age_over_18", "not_held"]);
        if let Ok(resp) = cbor::from_value::<DeviceResponse>(live.resp.clone()) {
            rt(ctx, "DeviceResponse", &resp, None);
            for d in resp.documents.iter().flat_map(|d| d.iter()) { rt(ctx, "Document", d, None); rt(ctx, "DeviceSigned", &d.device_signed, None); rt(ctx, "IssuerSigned", &d.issuer_signed, None); }
        }
    }
    // --- values outside the documented domain must be rejected, not altered
    let rejects: Vec<(&str, Vec<u8>)> = vec![
        ("NonEmptyVec-empty", to_bytes(&Value::Map(vec![(Value::Text("version".into()), Value::Text("1.0".into())), (Value::Text("docRequests".into()), Value::Array(vec![]))]))),
        ("SessionData-status-12", to_bytes(&Value::Map(vec![(Value::Text("status".into()), Value::Integer(12.into()))]))),
        ("DeviceResponse-status-13", to_bytes(&Value::Map(vec![(Value::Text("version".into()), Value::Text("1.0".into())), (Value::Text("status".into()), Value::Integer(13.into()))]))),
        ("DeviceResponse-errorcode-positive", to_bytes(&Value::Map(vec![(Value::Text("version".into()), Value::Text("1.0".into())), (Value::Text("status".into()), Value::Integer(0.into())),
            (Value::Text("documentErrors".into()), Value::Array(vec![Value::Map(vec![(Value::Text("d".into()), Value::Integer(5.into()))])]))]))),
    ];
    for (name, b) in rejects {
        let ok = match name { "NonEmptyVec-empty" => cbor::from_slice::<DeviceRequest>(&b).is_ok(), "SessionData-status-12" => cbor::from_slice::<SessionData>(&b).is_ok(), _ => cbor::from_slice::<DeviceResponse>(&b).is_ok() };
        ctx.emit.line("spec", &format!("spec:reject:{name}"), format!("spec.eq {} false", ok), "true".into(), serde_json::json!({"msg_hex": hex::encode(&b)}));
    }
    for (c, r, expect) in [(254i128, 300i128, false), (255, 255, false), (255, 256, true), (65535, 256, true), (65536, 256, false), (255, 4294967295, true), (255, 4294967296, false)] {
        let v = Value::Array(vec![Value::Integer(1.into()), Value::Integer(1.into()), Value::Map(vec![(Value::Integer(0.into()), Value::Integer((c as i64).into())), (Value::Integer(1.into()), Value::Integer((r as i64).into()))])]);
        let ok = cbor::from_value::<DeviceRetrievalMethod>(v).is_ok();
        ctx.emit.line("spec", "spec:NfcOptions:length-bounds", format!("spec.eq {} {}", ok, expect), "true".into(), serde_json::json!({"command": c as i64, "response": r as i64}));
    }
}

/// minimal JWK plumbing through ssi_jwk (what the library converts to/from)
mod ssi_free {
    use isomdl::definitions::device_key::cose_key::CoseKey;
    pub struct Jwk { pub raw: serde_json::Value, pub crv: String, pub x: Vec<u8>, pub y: Vec<u8> }
    fn b64(v: &serde_json::Value, k: &str) -> Vec<u8> { v.get(k).and_then(|s| s.as_str()).map(|s| base64::decode_config(s, base64::URL_SAFE_NO_PAD).unwrap_or_default()).unwrap_or_default() }
    pub fn to_jwk(k: &CoseKey) -> Result<Jwk, String> {
        let j: ssi_jwk::JWK = k.clone().try_into().map_err(|e: isomdl::definitions::Error| e.to_string())?;
        let raw = serde_json::to_value(&j).map_err(|e| e.to_string())?;
        let crv = raw.get("crv").and_then(|s| s.as_str()).unwrap_or("").to_string();
        Ok(Jwk { crv, x: b64(&raw, "x"), y: b64(&raw, "y"), raw })
    }
    pub fn from_jwk(raw: &serde_json::Value) -> Result<CoseKey, String> {
        let j: ssi_jwk::JWK = serde_json::from_value(raw.clone()).map_err(|e| e.to_string())?;
        CoseKey::try_from(j).map_err(|e| e.to_string())
    }
}
