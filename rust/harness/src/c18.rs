//! C18: every emitted message goes, as raw bytes, through the Lean CDDL validator.
use isomdl::presentation::Stringify;
use crate::gen::gen_text;
use crate::sess::{self, MDL, NS};
use crate::world::{self, Pki};
use crate::{hex_or_dash, Ctx};
use ciborium::Value;
use isomdl::cbor;
use isomdl::definitions::device_engagement::{DeviceRetrievalMethod, ServerRetrievalMethods};
use isomdl::definitions::device_key::cose_key::{CoseKey, EC2Curve, OKPCurve, EC2Y};
use isomdl::definitions::device_request::ItemsRequest;
use isomdl::definitions::helpers::{NonEmptyMap, NonEmptyVec};
use isomdl::definitions::x509::trust_anchor::TrustAnchorRegistry;
use isomdl::definitions::{DeviceKeyInfo, DeviceResponse, DigestAlgorithm, KeyAuthorizations, SessionData, SessionEstablishment, ValidityInfo};
use isomdl::issuance::mdoc::Mdoc;
use isomdl::presentation::{device, reader};
use p256::ecdsa::{Signature, SigningKey};
use rand::Rng;

fn iv(i: i128) -> Value { Value::Integer((i as i64).into()) }

fn check(ctx: &mut Ctx, kind: &str, what: &str, bytes: &[u8]) {
    ctx.emit.line("spec", &format!("spec:{kind}:{what}"), format!("cddl.{kind} {}", hex_or_dash(bytes)), "true".into(),
        serde_json::json!({"kind": kind, "what": what, "msg_hex": hex::encode(bytes)}));
    // the same emitted bytes against the generic schema validator (Model/Schema.lean `conf`, theorem C18_wire_conforms)
    let schema = match kind { "deviceEngagement" => "DeviceEngagement", "deviceRequest" => "DeviceRequest", "deviceResponse" => "DeviceResponse", "mso" => "Mso",
        "sessionData" => "SessionData", "sessionEstablishment" => "SessionEstablishment", _ => return };
    ctx.emit.line("spec", &format!("spec:{kind}:{what}:schema"), format!("spec.schema.conf {schema} {}", hex_or_dash(bytes)), "true".into(),
        serde_json::json!({"kind": kind, "what": what, "validator": "schema", "msg_hex": format!("{}-schema", hex::encode(bytes))}));
}

pub fn retrieval_configs(ctx: &mut Ctx) -> Vec<(String, Option<NonEmptyVec<DeviceRetrievalMethod>>, Option<ServerRetrievalMethods>)> {
    let uuid = |r: &mut rand_chacha::ChaCha8Rng| Value::Bytes((0..16).map(|_| r.gen()).collect());
    let rng = &mut ctx.rng;
    let mut methods: Vec<(String, Value)> = vec![];
    // BLE
    methods.push(("ble-central".into(), Value::Array(vec![iv(2), iv(1), Value::Map(vec![(iv(0), Value::Bool(false)), (iv(1), Value::Bool(true)), (iv(11), uuid(rng))])])));
    methods.push(("ble-peripheral".into(), Value::Array(vec![iv(2), iv(1), Value::Map(vec![(iv(0), Value::Bool(true)), (iv(1), Value::Bool(false)), (iv(10), uuid(rng))])])));
    methods.push(("ble-both".into(), Value::Array(vec![iv(2), iv(1), Value::Map(vec![(iv(0), Value::Bool(true)), (iv(1), Value::Bool(true)), (iv(10), uuid(rng)), (iv(11), uuid(rng))])])));
    methods.push(("ble-peripheral-addr".into(), Value::Array(vec![iv(2), iv(1), Value::Map(vec![(iv(0), Value::Bool(true)), (iv(1), Value::Bool(false)), (iv(10), uuid(rng)), (iv(20), Value::Bytes(vec![1, 2, 3, 4, 5, 6]))])])));
    methods.push(("ble-none".into(), Value::Array(vec![iv(2), iv(1), Value::Map(vec![(iv(0), Value::Bool(false)), (iv(1), Value::Bool(false))])])));
    // NFC
    for (c, r) in [(255i128, 256i128), (256, 257), (65535, 65536), (1000, 4_000_000_000)] {
        methods.push((format!("nfc-{c}-{r}"), Value::Array(vec![iv(1), iv(1), Value::Map(vec![(iv(0), iv(c)), (iv(1), iv(r))])])));
    }
    // Wi-Fi: every subset of the four optional fields
    for mask in 0..16u32 {
        let mut m = vec![];
        if mask & 1 != 0 { m.push((iv(0), Value::Text(gen_text(rng, 12)))); }
        if mask & 2 != 0 { m.push((iv(1), iv(rng.gen_range(0..300)))); }
        if mask & 4 != 0 { m.push((iv(2), iv(rng.gen_range(0..70000)))); }
        if mask & 8 != 0 { m.push((iv(3), Value::Bytes(vec![rng.gen(), rng.gen()]))); }
        methods.push((format!("wifi-{mask}"), Value::Array(vec![iv(3), iv(1), Value::Map(m)])));
    }
    let mut out = vec![("none".to_string(), None, None)];
    for (name, v) in &methods {
        if let Ok(m) = cbor::from_value::<DeviceRetrievalMethod>(v.clone()) { out.push((name.clone(), Some(NonEmptyVec::new(m)), None)); }
    }
    // combinations and server retrieval
    let parsed: Vec<DeviceRetrievalMethod> = methods.iter().filter_map(|(_, v)| cbor::from_value(v.clone()).ok()).collect();
    for _ in 0..6 {
        let mut nv = NonEmptyVec::new(parsed[rng.gen_range(0..parsed.len())].clone());
        for _ in 0..rng.gen_range(1..3) { nv.push(parsed[rng.gen_range(0..parsed.len())].clone()); }
        let srv = match rng.gen_range(0..4) {
            0 => None,
            1 => cbor::from_value::<ServerRetrievalMethods>(Value::Map(vec![(Value::Text("webApi".into()), Value::Array(vec![iv(1), Value::Text("https://a".into()), Value::Text("tok".into())]))])).ok(),
            2 => cbor::from_value::<ServerRetrievalMethods>(Value::Map(vec![(Value::Text("oidc".into()), Value::Array(vec![iv(1), Value::Text("https://b".into()), Value::Text("t2".into())]))])).ok(),
            _ => cbor::from_value::<ServerRetrievalMethods>(Value::Map(vec![(Value::Text("webApi".into()), Value::Array(vec![iv(1), Value::Text("u".into()), Value::Text("t".into())])),
                                                                            (Value::Text("oidc".into()), Value::Array(vec![iv(1), Value::Text("v".into()), Value::Text("w".into())]))])).ok(),
        };
        out.push(("combo".into(), Some(nv), srv));
    }
    out
}

fn device_keys(rng: &mut rand_chacha::ChaCha8Rng) -> Vec<(&'static str, CoseKey, Option<SigningKey>)> {
    let k = world::key_from(rng);
    vec![("p256", world::cose_key_of(&k), Some(k)),
         ("p384", CoseKey::EC2 { crv: EC2Curve::P384, x: vec![3; 48], y: EC2Y::Value(vec![4; 48]) }, None),
         ("p521", CoseKey::EC2 { crv: EC2Curve::P521, x: vec![5; 66], y: EC2Y::SignBit(true) }, None),
         ("p256k", CoseKey::EC2 { crv: EC2Curve::P256K, x: vec![8; 32], y: EC2Y::Value(vec![9; 32]) }, None),
         ("ed25519", CoseKey::OKP { crv: OKPCurve::Ed25519, x: vec![6; 32] }, None),
         ("ed448", CoseKey::OKP { crv: OKPCurve::Ed448, x: vec![7; 57] }, None)]
}

pub fn run(ctx: &mut Ctx) {
    let pki = Pki::new(&mut ctx.rng);
    let mut rng2: rand_chacha::ChaCha8Rng = rand::SeedableRng::seed_from_u64(ctx.rng.gen());
    let keys = device_keys(&mut rng2);
    // issued MSOs: algorithms, decoys, key authorisations, expected update, key info
    let mut mdocs: Vec<(String, Mdoc)> = vec![];
    for (i, (kname, ck, _)) in keys.iter().enumerate() {
        for (j, alg) in [DigestAlgorithm::SHA256, DigestAlgorithm::SHA384, DigestAlgorithm::SHA512].into_iter().enumerate() {
            let now = time::OffsetDateTime::now_utc();
            let off = time::UtcOffset::from_hms(((i + j) as i8 % 12) - 5, 30, 0).unwrap();
            let validity = ValidityInfo { signed: now.to_offset(off), valid_from: now + time::Duration::milliseconds(123), valid_until: now + time::Duration::days(30),
                expected_update: if (i + j) % 2 == 0 { Some(now + time::Duration::days(10)) } else { None } };
            let auth = match (i + j) % 3 { 0 => None, 1 => Some(KeyAuthorizations { namespaces: Some(NonEmptyVec::new(NS.to_string())), data_elements: None }),
                _ => Some(KeyAuthorizations { namespaces: None, data_elements: Some(NonEmptyMap::new(NS.to_string(), NonEmptyVec::new("family_name".to_string()))) }) };
            let key_info = if j == 1 { Some([(1i128, Value::Text("x".into())), (-3i128, Value::Bool(true))].into_iter().collect()) } else { None };
            let dki = DeviceKeyInfo { device_key: ck.clone(), key_authorizations: auth, key_info };
            let doc_type = if i == 0 && j == 0 { MDL.to_string() } else { format!("org.example.{kname}.{j}") };
            let mdoc = Mdoc::builder().doc_type(doc_type.clone()).namespaces(sess::default_ns_values()).validity_info(validity)
                .digest_algorithm(alg).device_key_info(dki).enable_decoy_digests(j != 2)
                .issue::<SigningKey, Signature>(pki.ds_chain(), pki.ds_key.clone()).unwrap();
            check(ctx, "mso", &format!("{kname}-{j}"), &cbor::to_vec(&mdoc.mso).unwrap());
            check(ctx, "msoTagged", &format!("{kname}-{j}"), mdoc.issuer_auth.inner.payload.as_ref().unwrap());
            mdocs.push((doc_type, mdoc));
        }
    }
    // sessions over every engagement configuration
    let configs = retrieval_configs(ctx);
    for (ci, (cname, drm, srm)) in configs.into_iter().enumerate() {
        let held: Vec<Mdoc> = mdocs.iter().enumerate().filter(|(i, _)| *i == 0 || (i + ci) % 4 == 0).map(|(_, (_, m))| m.clone()).collect();
        let held_types: Vec<String> = held.iter().map(|m| m.doc_type.clone()).collect();
        let docs = world::documents_of(held);
        let init = device::SessionManagerInit::initialise(docs, drm, srm).unwrap();
        let (eng, qr) = init.qr_engagement().unwrap();
        let de_bytes = base64::decode_config(qr.strip_prefix("mdoc:").unwrap(), base64::URL_SAFE_NO_PAD).unwrap();
        check(ctx, "deviceEngagement", &cname, &de_bytes);
        // (an engagement this crate itself cannot read back is recorded, not a harness crash)
        let (mut rdr, est, _) = match reader::SessionManager::establish_session(qr, sess::simple_namespaces(&["family_name", "age_over_18"]), pki.iaca_registry()) {
            Ok(x) => x,
            Err(e) => { ctx.emit.line("spec", "spec:deviceEngagement:readable-by-the-reader", "spec.eq refused accepted".into(), "true".into(), serde_json::json!({"config": cname, "error": e.to_string(), "msg_hex": hex::encode(&de_bytes)})); continue } };
        check(ctx, "sessionEstablishment", &cname, &est);
        let se: SessionEstablishment = cbor::from_slice(&est).unwrap();
        let (mut dev, _) = eng.process_session_establishment(se.clone(), TrustAnchorRegistry::default()).unwrap();
        let p = sess::peek_device(&dev);
        if let Some(pt) = sess::aes_dec(&p.sk_reader, &sess::iv_bytes(true, 1), se.data.as_ref()) { check(ctx, "deviceRequest", "establishment", &pt); }
        else { check(ctx, "deviceRequest", "establishment-undecryptable", &[]); }
        let rounds = if ctx.thorough { 6 } else { 3 };
        for round in 0..rounds {
            if round > 0 {
                let elems: Vec<String> = (0..ctx.rng.gen_range(1..5)).map(|i| format!("e{i}{}", gen_text(&mut ctx.rng, 5))).collect();
                let mut nsm = sess::simple_namespaces(&elems.iter().map(|s| s.as_str()).collect::<Vec<_>>());
                if ctx.rng.gen_bool(0.5) { nsm.insert("org.iso.18013.5.1.aamva".into(), NonEmptyMap::new("DHS_compliance".into(), true)); }
                let m = rdr.new_request(nsm).unwrap();
                check(ctx, "sessionData", "request", &m);
                let sd: SessionData = cbor::from_slice(&m).unwrap();
                let n = sess::peek_reader(&rdr).rdr_ctr;
                if let Some(pt) = sess::aes_dec(&p.sk_reader, &sess::iv_bytes(true, n), sd.data.unwrap().as_ref()) { check(ctx, "deviceRequest", "new_request", &pt); }
                // in some rounds the request on the wire comes from ANOTHER reader implementation announcing another version (same
                // message number): whatever the reader announces, what this device emits is version "1.0"
                if (round + ci) % 3 == 1 {
                    let ver = ["0.9", "1", "", "1.1", "2.0", "0"][(round + ci / 3) % 6];
                    let ir = Value::Map(vec![(Value::Text("docType".into()), Value::Text(held_types[0].clone())), (Value::Text("nameSpaces".into()), Value::Map(vec![(Value::Text(NS.into()), Value::Map(vec![(Value::Text("family_name".into()), Value::Bool(false))]))]))]);
                    let req = Value::Map(vec![(Value::Text("version".into()), Value::Text(ver.into())), (Value::Text("docRequests".into()), Value::Array(vec![Value::Map(vec![(Value::Text("itemsRequest".into()), Value::Tag(24, Box::new(Value::Bytes(crate::gen::to_bytes(&ir)))))])]))]);
                    let ct = sess::aes_enc(&p.sk_reader, &sess::iv_bytes(true, n), &crate::gen::to_bytes(&req));
                    dev.handle_request(&cbor::to_vec(&SessionData { data: Some(ct.into()), status: None }).unwrap());
                } else {
                dev.handle_request(&m);
                }
            }
            // response kinds: normal (1..n docs), unheld docs only, nothing permitted, malformed request -> error response
            let kind = (round + ci) % 5;
            match kind {
                4 => {
                    // several document types at once that the holder does not hold, and several it holds but withholds entirely
                    let unheld = ["org.unheld.a", "org.unheld.b", "org.unheld.c"];
                    let mut reqs: Vec<ItemsRequest> = unheld.iter().map(|d| ItemsRequest { doc_type: d.to_string(), namespaces: sess::simple_namespaces(&["a"]), request_info: None }).collect();
                    for d in held_types.iter() { reqs.push(ItemsRequest { doc_type: d.clone(), namespaces: sess::simple_namespaces(&["family_name"]), request_info: None }); }
                    // permitted: the unheld ones (document errors expected) and at most the first held one; the other held ones are withheld
                    let mut permit: Vec<&str> = unheld.to_vec(); if round % 2 == 0 { if let Some(h) = held_types.first() { permit.push(h.as_str()); } }
                    dev.prepare_response(&reqs, sess::permit_all(&permit, &["a", "family_name"]));
                }
                0 | 1 => {
                    let take = if kind == 0 { 1 } else { held_types.len() };
                    let dts: Vec<&str> = held_types.iter().take(take).map(|s| s.as_str()).collect();
                    let reqs: Vec<ItemsRequest> = dts.iter().map(|d| ItemsRequest { doc_type: d.to_string(), namespaces: sess::simple_namespaces(&["family_name", "age_over_18", "nope"]), request_info: None }).collect();
                    dev.prepare_response(&reqs, sess::permit_all(&dts, &["family_name", "age_over_18", "nope"]));
                }
                2 => {
                    let reqs = vec![ItemsRequest { doc_type: "org.unheld".into(), namespaces: sess::simple_namespaces(&["a"]), request_info: None }];
                    dev.prepare_response(&reqs, sess::permit_all(&["org.unheld"], &["a"]));
                }
                _ => {
                    let n = sess::peek_device(&dev).rdr_ctr.wrapping_add(1);
                    let pt: Vec<u8> = if ctx.rng.gen_bool(0.5) { vec![0xff, 0, 1] } else { vec![0xa0] };
                    let ct = sess::aes_enc(&p.sk_reader, &sess::iv_bytes(true, n), &pt);
                    dev.handle_request(&cbor::to_vec(&SessionData { data: Some(ct.into()), status: None }).unwrap());
                }
            }
            let mut guard = 0;
            while let Some((_, payload)) = dev.get_next_signature_payload().map(|(u, p)| (u, p.to_vec())) {
                let sig: Signature = p256::ecdsa::signature::Signer::sign(keys[0].2.as_ref().unwrap(), &payload);
                dev.submit_next_signature(sig.to_vec()).unwrap(); guard += 1; if guard > 20 { break; }
            }
            if !dev.response_ready() { dev.submit_next_signature(vec![0; 64]).unwrap(); }
            let Some(msg) = dev.retrieve_response() else { continue };
            check(ctx, "sessionData", "response", &msg);
            let sd: SessionData = cbor::from_slice(&msg).unwrap();
            let n = sess::peek_device(&dev).dev_ctr;
            let Some(pt) = sd.data.and_then(|d| sess::aes_dec(&p.sk_device, &sess::iv_bytes(false, n), d.as_ref())) else { continue };
            check(ctx, "deviceResponse", &format!("kind{kind}"), &pt);
            if let Ok(Value::Map(m)) = cbor::from_slice::<Value>(&pt) {
                if let Some((_, Value::Array(docs))) = m.iter().find(|(k, _)| k.as_text() == Some("documents")) {
                    for d in docs { check(ctx, "documentAlg", &format!("kind{kind}"), &crate::gen::to_bytes(d)); }
                }
            }
            let _ = cbor::from_slice::<DeviceResponse>(&pt);
            rdr.handle_response(&msg);
        }
        // the device's send counter on its last values (a long-lived session restored from storage): the responses
        // it still emits, and the status-only message once it cannot encrypt any more, are messages like any other
        for last in [u32::MAX - 1, u32::MAX] {
            let mut v = sess::b64_to_value(&dev.stringify().unwrap());
            sess::vset(&mut v, "device_message_counter", Value::Integer(last.into()));
            let Ok(mut d2) = device::SessionManager::parse(sess::value_to_b64(&v)) else { continue };
            let dts: Vec<&str> = held_types.iter().take(1).map(|s| s.as_str()).collect();
            let reqs: Vec<ItemsRequest> = dts.iter().map(|d| ItemsRequest { doc_type: d.to_string(), namespaces: sess::simple_namespaces(&["family_name"]), request_info: None }).collect();
            d2.prepare_response(&reqs, sess::permit_all(&dts, &["family_name"]));
            let mut guard = 0;
            while let Some((_, payload)) = d2.get_next_signature_payload().map(|(u, p)| (u, p.to_vec())) {
                let sig: Signature = p256::ecdsa::signature::Signer::sign(keys[0].2.as_ref().unwrap(), &payload);
                if d2.submit_next_signature(sig.to_vec()).is_err() { break; } guard += 1; if guard > 20 { break; }
            }
            if let Some(msg) = d2.retrieve_response() { check(ctx, "sessionData", &format!("send-counter-{}", if last == u32::MAX { "exhausted" } else { "last" }), &msg); }
        }
    }
}
