//! C19: JSON records -> namespace elements.  Real `FromJson::from_json` + `ToNamespaceMap::to_ns_map`
//! vs the Lean interpreter of the regenerated schemas; JSON travels to the model as CBOR.
use crate::gen::to_bytes;
use crate::{guarded, Ctx};
use ciborium::Value;
use isomdl::definitions::namespaces::org_iso_18013_5_1::OrgIso1801351;
use isomdl::definitions::namespaces::org_iso_18013_5_1_aamva::OrgIso1801351Aamva;
use isomdl::definitions::traits::{FromJson, ToNamespaceMap};
use rand::seq::SliceRandom;
use rand::Rng;
use serde_json::{json, Value as J};

pub fn json_to_cbor(j: &J) -> Value {
    match j {
        J::Null => Value::Null, J::Bool(b) => Value::Bool(*b),
        J::Number(n) => if let Some(u) = n.as_u64() { Value::Integer(u.into()) } else if let Some(i) = n.as_i64() { Value::Integer(i.into()) } else { Value::Float(n.as_f64().unwrap_or(0.5)) },
        J::String(s) => Value::Text(s.clone()),
        J::Array(a) => Value::Array(a.iter().map(json_to_cbor).collect()),
        J::Object(m) => Value::Map(m.iter().map(|(k, v)| (Value::Text(k.clone()), json_to_cbor(v))).collect()),
    }
}

fn mdl_base() -> J { json!({
    "family_name":"Smith", "given_name":"Alice", "birth_date":"1980-01-01", "issue_date":"2020-01-01", "expiry_date":"2030-01-01T00:00:00Z",
    "issuing_country":"US", "issuing_authority":"NY DMV", "document_number":"DL12345678", "portrait":"AAECAwQF",
    "driving_privileges":[{"vehicle_category_code":"A","issue_date":"2020-01-01","expiry_date":"2030-01-01"},{"vehicle_category_code":"B","codes":[{"code":"78","sign":"<=","value":"8"}]}],
    "un_distinguishing_sign":"USA", "administrative_number":"ABC123", "sex":1, "height":170, "weight":70, "eye_colour":"hazel", "hair_colour":"red",
    "birth_place":"Canada", "resident_address":"138 Eagle Street", "portrait_capture_date":"2020-01-01T12:00:00Z", "age_in_years":43, "age_birth_year":1980,
    "age_over_18":true, "age_over_21":true, "age_over_65":false, "issuing_jurisdiction":"US-NY", "nationality":"US", "resident_city":"Albany", "resident_state":"New York",
    "resident_postal_code":"12202-1719", "resident_country":"US", "biometric_template_face":"AAEC", "biometric_template_finger":"/w==",
    "family_name_national_character":"Смит", "given_name_national_character":"Алиса", "signature_usual_mark":"AQID" }) }
const MDL_MANDATORY: [&str; 11] = ["family_name", "given_name", "birth_date", "issue_date", "expiry_date", "issuing_country", "issuing_authority", "document_number", "portrait", "driving_privileges", "un_distinguishing_sign"];

fn aamva_base() -> J { json!({
    "domestic_driving_privileges":[{"domestic_vehicle_class":{"domestic_vehicle_class_code":"A","domestic_vehicle_class_description":"unknown","issue_date":"2020-01-01","expiry_date":"2030-01-01"},
        "domestic_vehicle_restrictions":[{"domestic_vehicle_restriction_code":"B","domestic_vehicle_restriction_description":"corrective lenses"},{"domestic_vehicle_restriction_description":"none"}],
        "domestic_vehicle_endorsements":[{"domestic_vehicle_endorsement_code":"H","domestic_vehicle_endorsement_description":"hazmat"}]},{}],
    "name_suffix":"1ST", "organ_donor":1, "veteran":1, "family_name_truncation":"N", "given_name_truncation":"T", "aka_family_name.v2":"Smithy", "aka_given_name.v2":"Ally", "aka_suffix":"I",
    "weight_range":3, "race_ethnicity":"AI", "EDL_credential":1, "sex":1, "DHS_compliance":"F", "resident_county":"001", "hazmat_endorsement_expiration_date":"2024-01-30",
    "CDL_indicator":1, "DHS_compliance_text":"Compliant", "DHS_temporary_lawful_status":1 }) }
const AAMVA_MANDATORY: [&str; 5] = ["domestic_driving_privileges", "family_name_truncation", "given_name_truncation", "sex", "DHS_compliance"];

pub fn mdl_base_pub() -> J { mdl_base() }
pub fn aamva_base_pub() -> J { aamva_base() }
pub const MDL_MANDATORY_PUB: [&str; 11] = MDL_MANDATORY;
pub const AAMVA_MANDATORY_PUB: [&str; 5] = AAMVA_MANDATORY;

fn run_record(ctx: &mut Ctx, tag: &str, module: &str, name: &str, j: &J, what: &str) {
    let real = if name == "OrgIso1801351" { guarded({ let j = j.clone(); move || OrgIso1801351::from_json(&j).map(|n| n.to_ns_map()).ok() }) }
               else { guarded({ let j = j.clone(); move || OrgIso1801351Aamva::from_json(&j).map(|n| n.to_ns_map()).ok() }) };
    let real_s = match real { Err(_) => "panic".to_string(), Ok(None) => "err".into(),
        Ok(Some(m)) => format!("ok {}", hex::encode(to_bytes(&Value::Map(m.into_iter().map(|(k, v)| (Value::Text(k), v)).collect())))) };
    let jh = hex::encode(to_bytes(&json_to_cbor(j)));
    let case = json!({"what": what, "record": j, "msg_hex": jh});
    ctx.emit.line("corr", tag, format!("ns.fromJson {module} {name} {jh}"), real_s.clone(), case.clone());
    ctx.emit.line("spec", &format!("spec:{tag}"), format!("spec.ns {module} {name} {jh} {}", real_s.replace(' ', "_")), "true".into(), case);
}

fn set(j: &J, k: &str, v: J) -> J { let mut o = j.clone(); o.as_object_mut().unwrap().insert(k.to_string(), v); o }
fn del(j: &J, k: &str) -> J { let mut o = j.clone(); o.as_object_mut().unwrap().remove(k); o }

fn wrong_types() -> Vec<J> { vec![J::Null, json!(true), json!(7), json!(-1), json!(1.5), json!("x"), json!([]), json!({}), json!(4294967296u64)] }

fn date_values() -> Vec<&'static str> { vec!["2000-02-29", "2001-02-29", "1900-02-29", "2400-02-29", "0999-01-01", "0000-01-01", "9999-12-31", "-0001-01-01", "+2000-01-01", "999-01-01", "12000-01-01", "2000-1-01", "2000-13-01", "2000-00-10",
    "2000-01-00", "2000-04-31", "2000-01-01 ", " 2000-01-01", "2000/01/01", "２０００-01-01", "", "2000-01-01T00:00:00Z"] }
fn datetime_values() -> Vec<&'static str> { vec!["2020-01-01T12:00:00Z", "2020-01-01T12:00:00.123Z", "2020-01-01T12:00:00+02:00", "2020-01-01t12:00:00z", "2020-01-01 12:00:00Z", "2020-01-01_12:00:00Z", "9999-12-31T23:59:59-01:00", "0000-01-01T00:00:00+01:00",
    "0000-01-01T00:00:00Z", "9999-12-31T23:59:59Z", "9999-12-31T23:59:59+00:01", "0000-01-01T00:00:00-00:01", "2020-01-01T12:00:60Z", "2016-12-31T23:59:60Z", "2016-12-31T22:59:60-01:00", "2017-01-01T00:59:60+01:00", "2016-12-30T23:59:60Z", "2020-02-29T23:59:60Z",
    "2020-01-01T24:00:00Z", "2020-01-01T12:60:00Z", "2020-01-01T12:00:00-00:00", "2020-01-01T12:00:00+23:59", "2020-01-01T12:00:00+24:00", "2020-01-01T12:00:00+01:60", "2020-01-01T12:00Z", "2020-01-01T12:00:00", "2020-01-01T12:00:00.Z",
    "2020-01-01T12:00:00.999999999999Z", "2020-02-30T12:00:00Z", "2020-03-01T00:30:00+01:00", "2020-12-31T23:30:00-01:00", "2021-01-01T00:00:00+00:00", "2020-01-01é12:00:00Z", "2020-01-01T12:00:00Zx", "2020-01-01"] }
fn latin1_values() -> Vec<String> { vec!["".into(), "a".repeat(150), "a".repeat(151), "é".repeat(75), "é".repeat(76), "é".repeat(150), "é".repeat(151), "\u{7e}".into(), "\u{7f}".into(), "\u{9f}".into(), "\u{a0}".into(), "\u{ff}".into(), "\u{100}".into(),
    "tab\there".into(), "new\nline".into(), " ".into(), "Ærøskøbing".into(), "日本".into(), "a\u{1F600}".into()] }
fn b64_values() -> Vec<&'static str> { vec!["", "AA==", "AA", "AA=", "A", "AAA", "AAA=", "AAAA", "AAAA=", "AA==AA==", "AA== ", "A-_A", "+/+/", "AB==", "AAB=", "/w==", "/x==", "////", "=", "==", "A===", "AAAAA", "AAAAAA", "AAAAAA==", "AAAAAAA=", "AAAAAAAA", "é"] }

pub fn run(ctx: &mut Ctx) {
    let mut rng: rand_chacha::ChaCha8Rng = rand::SeedableRng::seed_from_u64(ctx.rng.gen());
    let tables: J = serde_json::from_str(&std::fs::read_to_string(concat!(env!("CARGO_MANIFEST_DIR"), "/../../lean/IsoMdl/Generated/ns_tables.json")).expect("ns_tables.json (run xlate first)")).unwrap();
    let lits = |ty: &str, module: &str| -> Vec<J> { tables.as_array().unwrap().iter().filter(|t| t["ty"] == ty && t["module"] == module).flat_map(|t| t["literals"].as_array().unwrap().clone()).collect() };
    let (m1, m2) = ("org_iso_18013_5_1", "org_iso_18013_5_1_aamva");
    let mdl = mdl_base(); let aamva = aamva_base();
    let nsd = [(m1, "OrgIso1801351", &mdl, &MDL_MANDATORY[..]), (m2, "OrgIso1801351Aamva", &aamva, &AAMVA_MANDATORY[..])];

    for (module, name, base, mandatory) in nsd {
        run_record(ctx, "record:full", module, name, base, "all fields");
        let keys: Vec<String> = base.as_object().unwrap().keys().cloned().collect();
        let optional: Vec<&String> = keys.iter().filter(|k| !mandatory.contains(&k.as_str())).collect();
        // every optional field absent alone / null alone; all optional absent; random subsets
        for k in &optional { run_record(ctx, "record:optional-absent", module, name, &del(base, k), k); run_record(ctx, "record:optional-null", module, name, &set(base, k, J::Null), k); }
        { let mut o = (*base).clone(); for k in &optional { o.as_object_mut().unwrap().remove(*k); } run_record(ctx, "record:mandatory-only", module, name, &o, "mandatory only"); }
        for _ in 0..(if ctx.thorough { 400 } else { 40 }) {
            let mut o = (*base).clone(); for k in &optional { if rng.gen_bool(0.5) { o.as_object_mut().unwrap().remove(*k); } }
            run_record(ctx, "record:optional-subset", module, name, &o, "random subset of optional fields");
        }
        // every mandatory field missing / null; two missing
        for k in mandatory { run_record(ctx, "record:mandatory-missing", module, name, &del(base, k), k); run_record(ctx, "record:mandatory-null", module, name, &set(base, k, J::Null), k); }
        run_record(ctx, "record:mandatory-missing", module, name, &del(&del(base, mandatory[0]), mandatory[1]), "two missing");
        // every field with every wrong JSON type
        for k in &keys { for w in wrong_types() { run_record(ctx, "field:wrong-type", module, name, &set(base, k, w.clone()), k); } }
        // unknown extra entries are ignored
        run_record(ctx, "record:unknown-field", module, name, &set(&set(base, "not_a_field", json!(1)), "age_over", json!(true)), "unknown keys");
        // not an object
        for w in wrong_types() { if !w.is_object() { run_record(ctx, "record:not-an-object", module, name, &w, "top level"); } }
    }

    // --- leaf domains on the mDL record
    for v in latin1_values() { for k in ["family_name", "resident_address", "administrative_number"] { run_record(ctx, "field:latin1", m1, "OrgIso1801351", &set(&mdl, k, json!(v)), k); } }
    for v in latin1_values() { run_record(ctx, "field:text", m1, "OrgIso1801351", &set(&mdl, "family_name_national_character", json!(v)), "national characters are plain text"); }
    for v in latin1_values() { run_record(ctx, "field:latin1", m2, "OrgIso1801351Aamva", &set(&aamva, "aka_family_name.v2", json!(v)), "aka"); run_record(ctx, "field:text", m2, "OrgIso1801351Aamva", &set(&aamva, "DHS_compliance_text", json!(v)), "text"); }
    for v in date_values() { run_record(ctx, "field:full-date", m1, "OrgIso1801351", &set(&mdl, "birth_date", json!(v)), v); run_record(ctx, "field:full-date", m2, "OrgIso1801351Aamva", &set(&aamva, "hazmat_endorsement_expiration_date", json!(v)), v); }
    for v in date_values().into_iter().chain(datetime_values()) { run_record(ctx, "field:tdate-or-full-date", m1, "OrgIso1801351", &set(&mdl, "issue_date", json!(v)), v); }
    for v in datetime_values() { run_record(ctx, "field:tdate", m1, "OrgIso1801351", &set(&mdl, "portrait_capture_date", json!(v)), v); }
    for _ in 0..(if ctx.thorough { 2000 } else { 150 }) {
        // random well-formed date-times around month / year ends with random offsets and fractions
        let y = [0u32, 1, 1999, 2000, 2023, 2024, 2100, 9998, 9999][rng.gen_range(0..9)]; let mo = rng.gen_range(1..=12u32);
        let dim = match mo { 2 => if (y % 4 == 0 && y % 100 != 0) || y % 400 == 0 { 29 } else { 28 }, 4 | 6 | 9 | 11 => 30, _ => 31 };
        let d = [1u32, 2, dim - 1, dim, dim + 1][rng.gen_range(0..5)];
        let (h, mi, s) = ([0u32, 1, 12, 22, 23][rng.gen_range(0..5)], [0u32, 1, 30, 59][rng.gen_range(0..4)], [0u32, 1, 58, 59, 60][rng.gen_range(0..5)]);
        let frac = ["", ".0", ".5", ".999", ".123456789", ".1234567891234"][rng.gen_range(0..6)];
        let off = if rng.gen_bool(0.3) { "Z".to_string() } else { format!("{}{:02}:{:02}", if rng.gen_bool(0.5) { '+' } else { '-' }, rng.gen_range(0..24), [0u32, 1, 30, 59][rng.gen_range(0..4)]) };
        let v = format!("{y:04}-{mo:02}-{d:02}T{h:02}:{mi:02}:{s:02}{frac}{off}");
        run_record(ctx, "field:tdate-random", m1, "OrgIso1801351", &set(&mdl, "portrait_capture_date", json!(v)), &v);
        let v2 = format!("{y:04}-{mo:02}-{d:02}");
        run_record(ctx, "field:full-date-random", m1, "OrgIso1801351", &set(&mdl, "birth_date", json!(v2)), &v2);
    }
    for v in b64_values() { run_record(ctx, "field:bytes", m1, "OrgIso1801351", &set(&mdl, "portrait", json!(v)), v); run_record(ctx, "field:bytes", m1, "OrgIso1801351", &set(&mdl, "biometric_template_iris", json!(v)), v); }
    for _ in 0..(if ctx.thorough { 300 } else { 40 }) { let n = rng.gen_range(0..40); let b: Vec<u8> = (0..n).map(|_| rng.gen()).collect(); let mut e = base64::encode(&b); if rng.gen_bool(0.3) { e = e.trim_end_matches('=').to_string(); }
        run_record(ctx, "field:bytes-random", m1, "OrgIso1801351", &set(&mdl, "signature_usual_mark", json!(e)), "random bytes"); }
    for v in [json!(0), json!(1), json!(4294967295u64), json!(4294967296u64), json!(18446744073709551615u64), json!(-0), json!(1e3), json!(1.0)] { for k in ["height", "age_in_years", "age_birth_year"] { run_record(ctx, "field:u32", m1, "OrgIso1801351", &set(&mdl, k, v.clone()), k); } }
    // every code of every table, and near misses
    let table_fields: Vec<(&str, &str, &str, &str)> = vec![(m1, "OrgIso1801351", "issuing_country", "Alpha2"), (m1, "OrgIso1801351", "nationality", "Alpha2"), (m1, "OrgIso1801351", "resident_country", "Alpha2"), (m1, "OrgIso1801351", "un_distinguishing_sign", "UNDistinguishingSign"),
        (m1, "OrgIso1801351", "eye_colour", "EyeColour"), (m1, "OrgIso1801351", "hair_colour", "HairColour"), (m1, "OrgIso1801351", "sex", "Sex"),
        (m2, "OrgIso1801351Aamva", "name_suffix", "NameSuffix"), (m2, "OrgIso1801351Aamva", "aka_suffix", "NameSuffix"), (m2, "OrgIso1801351Aamva", "family_name_truncation", "NameTruncation"), (m2, "OrgIso1801351Aamva", "weight_range", "WeightRange"),
        (m2, "OrgIso1801351Aamva", "race_ethnicity", "RaceAndEthnicity"), (m2, "OrgIso1801351Aamva", "EDL_credential", "EDLIndicator"), (m2, "OrgIso1801351Aamva", "sex", "Sex"), (m2, "OrgIso1801351Aamva", "DHS_compliance", "DHSCompliance")];
    for (module, name, field, ty) in &table_fields {
        let base = if *module == m1 { &mdl } else { &aamva };
        let mut base = (*base).clone();
        if *field == "issuing_country" { base = del(&base, "issuing_jurisdiction"); }
        for l in lits(ty, module) {
            run_record(ctx, "table:every-code", module, name, &set(&base, field, l.clone()), ty);
            if let Some(s) = l.as_str() { for near in [s.to_lowercase(), s.to_uppercase(), format!("{s} "), format!(" {s}"), format!("{s}X"), s.replace('K', "\u{212A}").replace('k', "\u{212A}"), s.replace('I', "\u{130}").replace('i', "\u{131}")] { if near != s { run_record(ctx, "table:near-miss", module, name, &set(&base, field, json!(near)), ty); } } }
            if let Some(n) = l.as_u64() { for near in [n + 10, n + 100] { run_record(ctx, "table:near-miss", module, name, &set(&base, field, json!(near)), ty); } }
        }
        for n in 0..12u64 { run_record(ctx, "table:int-sweep", module, name, &set(&base, field, json!(n)), ty); }
    }
    // vehicle categories (strum) and privilege structures
    for l in lits("VehicleCategoryCode", m1) { let s = l.as_str().unwrap(); for v in [s.to_string(), s.to_lowercase(), format!("{s}x"), s.replace('E', "É")] {
        run_record(ctx, "table:vehicle-category", m1, "OrgIso1801351", &set(&mdl, "driving_privileges", json!([{"vehicle_category_code": v}])), "vehicle category"); } }
    for dp in [json!([]), json!([{}]), json!([{"vehicle_category_code":"A","codes":[]}]), json!([{"vehicle_category_code":"A","codes":[{"code":"x"}],"extra":1}]), json!([{"vehicle_category_code":"A","codes":[{"sign":"x"}]}]),
        json!([{"vehicle_category_code":"A","issue_date":"2020-02-30"}]), json!([{"vehicle_category_code":"A","issue_date":null,"expiry_date":"2020-01-01","codes":null}]), json!({"vehicle_category_code":"A"}), json!([[{"vehicle_category_code":"A"}]])] {
        run_record(ctx, "field:driving-privileges", m1, "OrgIso1801351", &set(&mdl, "driving_privileges", dp), "driving privileges"); }
    for dp in [json!([]), json!([{}]), json!([{"domestic_vehicle_class":{}}]), json!([{"domestic_vehicle_class":{"domestic_vehicle_class_code":"A","domestic_vehicle_class_description":"d"}}]), json!([{"domestic_vehicle_restrictions":[]}]),
        json!([{"domestic_vehicle_restrictions":[{"domestic_vehicle_restriction_description":"d"}]}]), json!([{"domestic_vehicle_endorsements":[{"domestic_vehicle_endorsement_code":"c"}]}]), json!([{"domestic_vehicle_class":null}])] {
        run_record(ctx, "field:domestic-privileges", m2, "OrgIso1801351Aamva", &set(&aamva, "domestic_driving_privileges", dp), "domestic driving privileges"); }
    for v in ["000", "001", "999", "00", "0000", "0a1", "０01", "", "1 2"] { run_record(ctx, "field:county", m2, "OrgIso1801351Aamva", &set(&aamva, "resident_county", json!(v)), v); }
    for v in [json!(0), json!(1), json!(2), json!(true)] { for k in ["organ_donor", "veteran", "CDL_indicator", "DHS_temporary_lawful_status"] { run_record(ctx, "field:present", m2, "OrgIso1801351Aamva", &set(&aamva, k, v.clone()), k); } }
    // every age_over_NN and the near-miss keys; biometric templates
    let plain = { let mut o = mdl.clone(); for k in ["age_over_18", "age_over_21", "age_over_65"] { o.as_object_mut().unwrap().remove(k); } o };
    for n in 0..100u32 { run_record(ctx, "dynamic:age-over-every", m1, "OrgIso1801351", &set(&plain, &format!("age_over_{n:02}"), json!(n % 2 == 0)), "age_over_NN"); }
    { let mut o = plain.clone(); for n in 0..100u32 { o.as_object_mut().unwrap().insert(format!("age_over_{n:02}"), json!(n % 3 == 0)); } run_record(ctx, "dynamic:age-over-all", m1, "OrgIso1801351", &o, "all hundred"); }
    // near-miss keys next to GENUINE age_over_NN keys (18, 21, 65 of the base record), sorting before, between and after them:
    // an ignored key must not take its neighbours with it
    for k in ["age_over_1", "age_over_100", "age_over_ab", "age_over_", "AGE_OVER_18", "age_over_18 ", "xage_over_18", "age_over_+1", "age_over_18_verified", "age_over_2x", "age_over_640", "age_over_00x", "age_over_7"] {
        run_record(ctx, "dynamic:age-over-near-miss-among-genuine", m1, "OrgIso1801351", &set(&mdl, k, json!(true)), k); }
    for k in ["age_over_1", "age_over_100", "age_over_ab", "age_over_", "AGE_OVER_18", "age_over_1８", "age_over_18 ", "xage_over_18", "age_over_+1"] { run_record(ctx, "dynamic:age-over-near-miss", m1, "OrgIso1801351", &set(&plain, k, json!(true)), k);
        run_record(ctx, "dynamic:age-over-near-miss", m1, "OrgIso1801351", &set(&plain, k, json!("not a bool")), k); }
    for v in wrong_types() { run_record(ctx, "dynamic:age-over-value", m1, "OrgIso1801351", &set(&plain, "age_over_30", v), "non-boolean value"); }
    for k in ["biometric_template_", "biometric_template_x", "biometric_template_face_2", "biometric_template_é", "biometric_template", "Biometric_template_x"] { run_record(ctx, "dynamic:biometric", m1, "OrgIso1801351", &set(&mdl, k, json!("AAEC")), k);
        run_record(ctx, "dynamic:biometric", m1, "OrgIso1801351", &set(&mdl, k, json!(5)), k); }
    // issuing jurisdiction against issuing country
    for (c, jd) in [("US", json!("US-NY")), ("US", json!("US")), ("US", json!("USA")), ("US", json!("CA-ON")), ("US", json!("us-ny")), ("US", json!("")), ("CA", json!("CA-ON")), ("XX", json!("XX-1")), ("US", json!(5)), ("US", J::Null)] {
        run_record(ctx, "dynamic:issuing-jurisdiction", m1, "OrgIso1801351", &set(&set(&mdl, "issuing_country", json!(c)), "issuing_jurisdiction", jd), "jurisdiction"); }
    run_record(ctx, "dynamic:issuing-jurisdiction", m1, "OrgIso1801351", &del(&mdl, "issuing_country"), "jurisdiction without country");
    // random combinations of the above domain values
    let pool: Vec<(&str, Vec<J>)> = vec![("family_name", latin1_values().into_iter().map(|s| json!(s)).collect()), ("birth_date", date_values().into_iter().map(|s| json!(s)).collect()),
        ("issue_date", datetime_values().into_iter().map(|s| json!(s)).collect()), ("portrait", b64_values().into_iter().map(|s| json!(s)).collect()), ("sex", (0..11).map(|n| json!(n)).collect()), ("height", wrong_types())];
    for _ in 0..(if ctx.thorough { 1500 } else { 150 }) {
        let mut o = mdl.clone();
        for _ in 0..rng.gen_range(1..4) { let (k, vs) = pool.choose(&mut rng).unwrap(); o.as_object_mut().unwrap().insert(k.to_string(), vs.choose(&mut rng).unwrap().clone()); }
        if rng.gen_bool(0.3) { let k = MDL_MANDATORY.choose(&mut rng).unwrap(); o.as_object_mut().unwrap().remove(*k); }
        run_record(ctx, "record:random-mix", m1, "OrgIso1801351", &o, "random mix of domain values");
    }
}
