//! Shared fixtures: a PKI built certificate-by-certificate from explicit specs (so that every
//! field/extension can be deviated for C03/C11/C12), issuance of mdocs, and session plumbing.
#![allow(dead_code)]
use der::asn1::{BitString, OctetString};
use der::{Decode, Encode};
use isomdl::definitions::device_key::cose_key::{CoseKey, EC2Curve, EC2Y};
use isomdl::definitions::helpers::NonEmptyMap;
use isomdl::definitions::x509::trust_anchor::{TrustAnchor, TrustAnchorRegistry, TrustPurpose};
use isomdl::definitions::x509::X5Chain;
use isomdl::definitions::{DeviceKeyInfo, DigestAlgorithm, ValidityInfo};
use isomdl::issuance::mdoc::{Mdoc, Namespaces};
use isomdl::presentation::device::{Document, Documents};
use p256::ecdsa::{signature::Signer, Signature, SigningKey};
use rand::{CryptoRng, RngCore};
use sha1::{Digest, Sha1};
use std::time::{Duration, SystemTime};
use x509_cert::ext::pkix::crl::dp::DistributionPoint;
use x509_cert::ext::pkix::name::{DistributionPointName, GeneralName};
use x509_cert::ext::pkix::{
    AuthorityKeyIdentifier, BasicConstraints, CrlDistributionPoints, ExtendedKeyUsage, IssuerAltName,
    KeyUsage, KeyUsages, SubjectKeyIdentifier,
};
use x509_cert::ext::Extension;
use x509_cert::name::Name;
use x509_cert::serial_number::SerialNumber;
use x509_cert::spki::{AlgorithmIdentifierOwned, SubjectPublicKeyInfoOwned};
use x509_cert::time::{Time, Validity};
use x509_cert::{Certificate, TbsCertificate, Version};

pub const OID_SKI: &str = "2.5.29.14";
pub const OID_KU: &str = "2.5.29.15";
pub const OID_IAN: &str = "2.5.29.18";
pub const OID_BC: &str = "2.5.29.19";
pub const OID_CRLDP: &str = "2.5.29.31";
pub const OID_AKI: &str = "2.5.29.35";
pub const OID_EKU: &str = "2.5.29.37";
pub const EKU_DS: &str = "1.0.18013.5.1.2";
pub const EKU_READER: &str = "1.0.18013.5.1.6";

/// One extension of a certificate spec: oid, criticality and DER payload.
#[derive(Clone, Debug)]
pub struct ExtSpec { pub oid: String, pub critical: bool, pub value: Vec<u8> }

#[derive(Clone, Debug)]
pub struct CertSpec {
    pub subject: String,
    pub issuer: String,
    /// seconds relative to now
    pub not_before: i64,
    pub not_after: i64,
    pub exts: Vec<ExtSpec>,
    pub serial: u64,
}

pub fn ski_of(key: &SigningKey) -> Vec<u8> {
    let spki = SubjectPublicKeyInfoOwned::from_key(*key.verifying_key()).unwrap();
    Sha1::digest(spki.subject_public_key.raw_bytes()).to_vec()
}

pub fn ext(oid: &str, critical: bool, value: Vec<u8>) -> ExtSpec { ExtSpec { oid: oid.into(), critical, value } }
pub fn ext_ski(ski: &[u8]) -> ExtSpec { ext(OID_SKI, false, SubjectKeyIdentifier(OctetString::new(ski.to_vec()).unwrap()).to_der().unwrap()) }
pub fn ext_aki(ki: &[u8]) -> ExtSpec {
    ext(OID_AKI, false, AuthorityKeyIdentifier { key_identifier: Some(OctetString::new(ki.to_vec()).unwrap()), ..Default::default() }.to_der().unwrap())
}
pub fn ext_ku(flags: der::flagset::FlagSet<KeyUsages>) -> ExtSpec { ext(OID_KU, true, KeyUsage(flags).to_der().unwrap()) }
pub fn ext_bc(ca: bool, path_len: Option<u8>) -> ExtSpec { ext(OID_BC, true, BasicConstraints { ca, path_len_constraint: path_len }.to_der().unwrap()) }
pub fn ext_ian_email() -> ExtSpec {
    ext(OID_IAN, false, IssuerAltName(vec![GeneralName::Rfc822Name("test@example.com".to_string().try_into().unwrap())]).to_der().unwrap())
}
pub fn ext_crldp_uri() -> ExtSpec {
    ext(OID_CRLDP, false, CrlDistributionPoints(vec![DistributionPoint {
        distribution_point: Some(DistributionPointName::FullName(vec![GeneralName::UniformResourceIdentifier("http://example.com".to_string().try_into().unwrap())])),
        reasons: None, crl_issuer: None }]).to_der().unwrap())
}
pub fn ext_eku(oids: &[&str]) -> ExtSpec {
    ext(OID_EKU, true, ExtendedKeyUsage(oids.iter().map(|o| const_oid::ObjectIdentifier::new_unwrap(o)).collect()).to_der().unwrap())
}

/// Conformant root (IACA or reader CA: the library applies the IACA profile only on the issuer side).
pub fn root_spec(name: &str, key: &SigningKey) -> CertSpec {
    CertSpec { subject: name.into(), issuer: name.into(), not_before: -3600, not_after: 86400 * 30, serial: 1,
        exts: vec![ext_ski(&ski_of(key)), ext_ku(KeyUsages::KeyCertSign | KeyUsages::CRLSign), ext_bc(true, Some(0)), ext_ian_email(), ext_crldp_uri()] }
}

/// Conformant leaf for a role (`eku` = EKU_DS or EKU_READER).
pub fn leaf_spec(subject: &str, issuer: &str, key: &SigningKey, issuer_key: &SigningKey, eku: &str) -> CertSpec {
    CertSpec { subject: subject.into(), issuer: issuer.into(), not_before: -3600, not_after: 86400 * 30, serial: 2,
        exts: vec![ext_ski(&ski_of(key)), ext_aki(&ski_of(issuer_key)), ext_ku(KeyUsages::DigitalSignature.into()), ext_ian_email(), ext_crldp_uri(), ext_eku(&[eku])] }
}

fn time_at(offset: i64) -> Time {
    let now = SystemTime::now().duration_since(SystemTime::UNIX_EPOCH).unwrap().as_secs() as i64;
    Time::try_from(SystemTime::UNIX_EPOCH + Duration::from_secs((now + offset) as u64)).unwrap()
}

/// Build and sign a certificate from its spec. `sign_key` signs the TBS bytes (normally the issuer's).
pub fn build_cert(spec: &CertSpec, subject_key: &SigningKey, sign_key: &SigningKey) -> Certificate {
    let alg = AlgorithmIdentifierOwned { oid: const_oid::ObjectIdentifier::new_unwrap("1.2.840.10045.4.3.2"), parameters: None };
    let exts: Vec<Extension> = spec.exts.iter().map(|e| Extension {
        extn_id: const_oid::ObjectIdentifier::new_unwrap(&e.oid), critical: e.critical,
        extn_value: OctetString::new(e.value.clone()).unwrap() }).collect();
    let tbs = TbsCertificate {
        version: Version::V3,
        serial_number: SerialNumber::from(spec.serial),
        signature: alg.clone(),
        issuer: spec.issuer.parse::<Name>().unwrap(),
        validity: Validity { not_before: time_at(spec.not_before), not_after: time_at(spec.not_after) },
        subject: spec.subject.parse::<Name>().unwrap(),
        subject_public_key_info: SubjectPublicKeyInfoOwned::from_key(*subject_key.verifying_key()).unwrap(),
        issuer_unique_id: None, subject_unique_id: None,
        extensions: if exts.is_empty() { None } else { Some(exts) },
    };
    let sig: Signature = sign_key.sign(&tbs.to_der().unwrap());
    Certificate { tbs_certificate: tbs, signature_algorithm: alg, signature: BitString::from_bytes(sig.to_der().as_bytes()).unwrap() }
}

/// the same certificate with its public key replaced by a P-384 one (a well-formed SPKI for secp384r1 around the given point
/// bytes) and its subject key identifier set accordingly; signed by `sign_key`
pub fn with_p384_key(spec: &CertSpec, point: &[u8], sign_key: &SigningKey) -> (Certificate, Vec<u8>) {
    let ski = Sha1::digest(point).to_vec();
    let mut spec = CertSpec { subject: spec.subject.clone(), issuer: spec.issuer.clone(), not_before: spec.not_before, not_after: spec.not_after, serial: spec.serial,
        exts: spec.exts.iter().map(|e| ExtSpec { oid: e.oid.clone(), critical: e.critical, value: e.value.clone() }).collect() };
    for e in spec.exts.iter_mut() { if e.oid == OID_SKI { *e = ext_ski(&ski); } }
    let template = build_cert(&spec, sign_key, sign_key);
    let mut tbs = template.tbs_certificate.clone();
    tbs.subject_public_key_info = SubjectPublicKeyInfoOwned {
        algorithm: AlgorithmIdentifierOwned { oid: const_oid::ObjectIdentifier::new_unwrap("1.2.840.10045.2.1"),
            parameters: Some(der::Any::from(const_oid::ObjectIdentifier::new_unwrap("1.3.132.0.34"))) },
        subject_public_key: BitString::from_bytes(point).unwrap() };
    let sig: Signature = sign_key.sign(&tbs.to_der().unwrap());
    (Certificate { tbs_certificate: tbs, signature_algorithm: template.signature_algorithm.clone(), signature: BitString::from_bytes(sig.to_der().as_bytes()).unwrap() }, ski)
}

pub struct Pki {
    pub iaca_key: SigningKey, pub iaca: Certificate,
    pub ds_key: SigningKey, pub ds: Certificate,
    pub reader_ca_key: SigningKey, pub reader_ca: Certificate,
    pub reader_key: SigningKey, pub reader: Certificate,
}

pub fn key_from(rng: &mut (impl RngCore + CryptoRng)) -> SigningKey { SigningKey::random(rng) }

impl Pki {
    pub fn new(rng: &mut (impl RngCore + CryptoRng)) -> Pki {
        let iaca_key = key_from(rng); let ds_key = key_from(rng);
        let reader_ca_key = key_from(rng); let reader_key = key_from(rng);
        let iaca = build_cert(&root_spec("CN=iaca,C=US", &iaca_key), &iaca_key, &iaca_key);
        let ds = build_cert(&leaf_spec("CN=ds,C=US", "CN=iaca,C=US", &ds_key, &iaca_key, EKU_DS), &ds_key, &iaca_key);
        let reader_ca = build_cert(&root_spec("CN=readerca,C=US", &reader_ca_key), &reader_ca_key, &reader_ca_key);
        let reader = build_cert(&leaf_spec("CN=reader,C=US", "CN=readerca,C=US", &reader_key, &reader_ca_key, EKU_READER), &reader_key, &reader_ca_key);
        Pki { iaca_key, iaca, ds_key, ds, reader_ca_key, reader_ca, reader_key, reader }
    }
    pub fn registry(&self, anchors: &[(&Certificate, TrustPurpose)]) -> TrustAnchorRegistry {
        TrustAnchorRegistry { anchors: anchors.iter().map(|(c, p)| TrustAnchor { certificate: (*c).clone(), purpose: *p }).collect() }
    }
    pub fn iaca_registry(&self) -> TrustAnchorRegistry { self.registry(&[(&self.iaca, TrustPurpose::Iaca)]) }
    pub fn reader_registry(&self) -> TrustAnchorRegistry { self.registry(&[(&self.reader_ca, TrustPurpose::ReaderCa)]) }
    pub fn ds_chain(&self) -> X5Chain { X5Chain::builder().with_certificate(self.ds.clone()).unwrap().build().unwrap() }
}

pub fn cose_key_of(key: &SigningKey) -> CoseKey {
    let ep = key.verifying_key().to_encoded_point(false);
    CoseKey::EC2 { crv: EC2Curve::P256, x: ep.x().unwrap().to_vec(), y: EC2Y::Value(ep.y().unwrap().to_vec()) }
}

pub fn validity_now() -> ValidityInfo {
    let now = time::OffsetDateTime::now_utc();
    ValidityInfo { signed: now, valid_from: now, valid_until: now + time::Duration::days(30), expected_update: None }
}

pub fn issue(pki: &Pki, doc_type: &str, namespaces: Namespaces, alg: DigestAlgorithm, decoys: bool, device_key: &SigningKey) -> anyhow::Result<Mdoc> {
    let dki = DeviceKeyInfo { device_key: cose_key_of(device_key), key_authorizations: None, key_info: None };
    Mdoc::builder().doc_type(doc_type.into()).namespaces(namespaces).validity_info(validity_now())
        .digest_algorithm(alg).device_key_info(dki).enable_decoy_digests(decoys)
        .issue::<SigningKey, Signature>(pki.ds_chain(), pki.ds_key.clone())
}

pub fn documents_of(mdocs: Vec<Mdoc>) -> Documents {
    let mut it = mdocs.into_iter();
    let first = it.next().unwrap();
    let mut docs: Documents = NonEmptyMap::new(first.doc_type.clone(), Document::from(first));
    for m in it { docs.insert(m.doc_type.clone(), Document::from(m)); }
    docs
}

pub fn cert_from_der(der: &[u8]) -> Certificate { Certificate::from_der(der).unwrap() }
