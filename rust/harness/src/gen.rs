//! Generators of CBOR values and identifiers shared by several properties.
#![allow(dead_code)]
use ciborium::Value;
use rand::Rng;

pub fn gen_text(rng: &mut impl Rng, max: usize) -> String {
    let n = rng.gen_range(0..=max);
    (0..n).map(|_| match rng.gen_range(0..20) { 0 => 'é', 1 => '日', 2 => ' ', _ => (b'a' + rng.gen_range(0..26)) as char }).collect()
}

/// any CBOR element value the data model allows (no floats with payload ambiguity: floats are
/// generated already in ciborium's shortest form by round-tripping through ciborium)
pub fn gen_value(rng: &mut impl Rng, depth: u32) -> Value {
    let k = if depth == 0 { rng.gen_range(0..8) } else { rng.gen_range(0..12) };
    match k {
        0 => Value::Bool(rng.gen()),
        1 => Value::Integer(match rng.gen_range(0..6) { 0 => 0i64, 1 => 23, 2 => 24, 3 => 255, 4 => 65536, _ => rng.gen_range(0..1 << 40) }.into()),
        2 => Value::Integer((-(rng.gen_range(1..1i64 << 33))).into()),
        3 => Value::Text(gen_text(rng, 30)),
        4 => Value::Bytes((0..rng.gen_range(0..40)).map(|_| rng.gen()).collect()),
        5 => Value::Tag(1004, Box::new(Value::Text(format!("{:04}-{:02}-{:02}", rng.gen_range(1900..2100), rng.gen_range(1..13), rng.gen_range(1..29))))),
        6 => Value::Tag(0, Box::new(Value::Text("2024-01-02T03:04:05Z".into()))),
        7 => Value::Null,
        8 | 9 => Value::Array((0..rng.gen_range(0..4)).map(|_| gen_value(rng, depth - 1)).collect()),
        10 => Value::Map((0..rng.gen_range(0..4)).map(|i| (Value::Text(format!("k{i}{}", gen_text(rng, 4))), gen_value(rng, depth - 1))).collect()),
        _ => Value::Float([0.5f64, 1.5, -2.25, 1.0e10, 3.141592653589793][rng.gen_range(0..5)]),
    }
}

pub fn to_bytes(v: &Value) -> Vec<u8> { let mut o = vec![]; ciborium::ser::into_writer(v, &mut o).unwrap(); o }
