//! C12: certificates generated from the conformant profile with single (and pairs of) deviations;
//! real ValidationRuleset::validate vs the Lean model over an abstraction of the DER certificates
//! (computed here with x509-cert / p256 / sha1 directly).
use crate::world::{self, *};
use crate::Ctx;
use der::{Decode, Encode};
use isomdl::definitions::x509::trust_anchor::{TrustAnchor, TrustAnchorRegistry, TrustPurpose};
use isomdl::definitions::x509::validation::ValidationRuleset;
use isomdl::definitions::x509::X5Chain;
use p256::ecdsa::{signature::Verifier, Signature, SigningKey, VerifyingKey};
use rand::Rng;
use sha1::{Digest, Sha1};
use std::collections::BTreeMap;
use x509_cert::ext::pkix::crl::dp::DistributionPoint;
use x509_cert::ext::pkix::name::{DistributionPointName, GeneralName};
use x509_cert::ext::pkix::{AuthorityKeyIdentifier, BasicConstraints, CrlDistributionPoints, ExtendedKeyUsage, IssuerAltName, KeyUsage, KeyUsages, SubjectKeyIdentifier};
use x509_cert::Certificate;

#[derive(Default)]
struct Intern { names: BTreeMap<Vec<u8>, usize>, vals: BTreeMap<Vec<u8>, usize>, keys: BTreeMap<Vec<u8>, usize>, oids: BTreeMap<String, usize> }
impl Intern {
    fn id(m: &mut BTreeMap<Vec<u8>, usize>, k: Vec<u8>) -> usize { let n = m.len() + 1; *m.entry(k).or_insert(n) }
}

fn join(v: Vec<String>, sep: &str) -> String { if v.is_empty() { "-".into() } else { v.join(sep) } }

/// DER certificate -> abstract certificate token (see lean/IsoMdl/Driver/X509.lean)
fn abstract_cert(c: &Certificate, now: i64, all_keys: &[VerifyingKey], it: &mut Intern) -> String {
    let tbs = &c.tbs_certificate;
    let nb = tbs.validity.not_before.to_unix_duration().as_secs() as i64 - now;
    let na = tbs.validity.not_after.to_unix_duration().as_secs() as i64 - now;
    let sub = Intern::id(&mut it.names, tbs.subject.to_der().unwrap());
    let iss = Intern::id(&mut it.names, tbs.issuer.to_der().unwrap());
    let attrs = |oid: &str, it: &mut Intern| -> Vec<String> { tbs.subject.0.iter().flat_map(|r| r.0.iter()).filter(|a| a.oid.to_string() == oid)
        .map(|a| Intern::id(&mut it.vals, a.value.to_der().unwrap()).to_string()).collect() };
    let cs = attrs("2.5.4.6", it); let sts = attrs("2.5.4.8", it);
    let key_bits = tbs.subject_public_key_info.subject_public_key.raw_bytes().to_vec();
    let kh = Intern::id(&mut it.keys, Sha1::digest(&key_bits).to_vec());
    let p256 = p256::PublicKey::from_sec1_bytes(&key_bits).is_ok() && tbs.subject_public_key_info.algorithm.oid.to_string() == "1.2.840.10045.2.1";
    let tbs_der = tbs.to_der().unwrap();
    let sig = Signature::from_der(c.signature.raw_bytes());
    let signed_by: Vec<String> = all_keys.iter().filter(|k| sig.as_ref().map(|s| k.verify(&tbs_der, s).is_ok()).unwrap_or(false))
        .map(|k| Intern::id(&mut it.keys, Sha1::digest(k.to_encoded_point(false).as_bytes()).to_vec()).to_string()).collect();
    let mut exts = vec![];
    for e in tbs.extensions.iter().flatten() {
        let oid = e.extn_id.to_string();
        let b = e.extn_value.as_bytes();
        let (id, pl): (String, String) = match oid.as_str() {
            OID_SKI => ("ski".into(), SubjectKeyIdentifier::from_der(b).map(|s| format!("ski{}", Intern::id(&mut it.keys, s.0.as_bytes().to_vec()))).unwrap_or("u".into())),
            OID_KU => ("ku".into(), KeyUsage::from_der(b).map(|k| { let bits: u16 = k.0.bits(); format!("ku{}", join((0..16).filter(|i| bits & (1 << i) != 0).map(|i| i.to_string()).collect(), ".")) }).unwrap_or("u".into())),
            OID_EKU => ("eku".into(), ExtendedKeyUsage::from_der(b).map(|k| format!("eku{}", join(k.0.iter().map(|o| match o.to_string().as_str() { EKU_DS => "2".to_string(), EKU_READER => "6".to_string(),
                other => { let n = it.oids.len() + 100; it.oids.entry(other.to_string()).or_insert(n).to_string() } }).collect(), "."))).unwrap_or("u".into())),
            OID_BC => ("bc".into(), BasicConstraints::from_der(b).map(|k| format!("bc{}{}", if k.ca { "t" } else { "f" }, k.path_len_constraint.map(|n| n.to_string()).unwrap_or("n".into()))).unwrap_or("u".into())),
            OID_CRLDP => ("crldp".into(), CrlDistributionPoints::from_der(b).map(|k| format!("dp{}", join(k.0.iter().map(|p| {
                let uri = p.distribution_point.as_ref().map(|d| match d { DistributionPointName::FullName(ns) => ns.iter().any(|g| matches!(g, GeneralName::UniformResourceIdentifier(_))), _ => false }).unwrap_or(false);
                format!("{}{}{}", if uri { "t" } else { "f" }, if p.reasons.is_some() { "t" } else { "f" }, if p.crl_issuer.is_some() { "t" } else { "f" }) }).collect(), "."))).unwrap_or("u".into())),
            OID_IAN => ("ian".into(), IssuerAltName::from_der(b).map(|k| format!("ian{}", if k.0.iter().all(|g| matches!(g, GeneralName::Rfc822Name(_) | GeneralName::UniformResourceIdentifier(_))) { "t" } else { "f" })).unwrap_or("u".into())),
            OID_AKI => ("aki".into(), AuthorityKeyIdentifier::from_der(b).map(|k| format!("aki{}", k.key_identifier.map(|x| Intern::id(&mut it.keys, x.as_bytes().to_vec()).to_string()).unwrap_or("n".into()))).unwrap_or("u".into())),
            "2.5.29.33" => ("dis1".into(), "o".into()), "2.5.29.30" => ("dis2".into(), "o".into()), "2.5.29.36" => ("dis3".into(), "o".into()),
            "2.5.29.54" => ("dis4".into(), "o".into()), "2.5.29.46" => ("dis5".into(), "o".into()),
            other => { let n = it.oids.len() + 100; (format!("oth{}", it.oids.entry(other.to_string()).or_insert(n)), "o".into()) }
        };
        exts.push(format!("{}/{}/{}", id, if e.critical { "t" } else { "f" }, pl));
    }
    format!("{nb}:{na}:{sub}:{iss}:{}:{}:{kh}:{}:{}:{}", join(cs, ","), join(sts, ","), if p256 { "t" } else { "f" }, join(signed_by, ","), join(exts, "|"))
}

fn err_kinds(errors: &[String]) -> String {
    if errors.is_empty() { return "ok".into(); }
    let mut k: Vec<&str> = errors.iter().map(|e| {
        if e.contains("not yet valid") { "not-yet-valid" } else if e.contains("expired") { "expired" } else if e.contains("extension is not allowed") { "not-allowed" }
        else if e.contains("unknown critical extension") { "unknown-critical" } else if e.contains("required extension not found") { "required-not-found" }
        else if e.contains("no valid trust anchor found") { "no-trust-anchor" } else if e.contains("has no subject") { "name-missing" }
        else if e.contains("has multiple subject") { "name-multiple" } else if e.contains("does not match:") { "name-mismatch" } else { "ext-invalid" } }).collect();
    k.sort();
    format!("err {}", k.join(","))
}

/// a deviation of a certificate spec; returns None if not applicable
type Dev = (&'static str, fn(&mut CertSpec, &SigningKey, &SigningKey, &mut rand_chacha::ChaCha8Rng));

fn raw(oid: &str, critical: bool, v: Vec<u8>) -> ExtSpec { ext(oid, critical, v) }
fn set_ext(s: &mut CertSpec, oid: &str, new: ExtSpec) { for e in s.exts.iter_mut() { if e.oid == oid { *e = new.clone(); } } }
fn remove_ext(s: &mut CertSpec, oid: &str) { s.exts.retain(|e| e.oid != oid); }
fn dup_ext(s: &mut CertSpec, oid: &str) { if let Some(e) = s.exts.iter().find(|e| e.oid == oid).cloned() { s.exts.push(e); } }
fn dp(uri: bool, reasons: bool, issuer: bool, relative: bool) -> DistributionPoint {
    let name: GeneralName = if uri { GeneralName::UniformResourceIdentifier("http://example.com".to_string().try_into().unwrap()) } else { GeneralName::DnsName("example.com".to_string().try_into().unwrap()) };
    DistributionPoint { distribution_point: if relative { None } else { Some(DistributionPointName::FullName(vec![name.clone()])) },
        reasons: if reasons { Some(x509_cert::ext::pkix::crl::dp::ReasonFlags::from(x509_cert::ext::pkix::crl::dp::Reasons::KeyCompromise)) } else { None },
        crl_issuer: if issuer { Some(vec![name]) } else { None } }
}

fn leaf_devs() -> Vec<Dev> { vec![
    ("expired", |s, _, _, _| { s.not_before = -7200; s.not_after = -60; }),
    ("not-yet-valid", |s, _, _, _| { s.not_before = 3600; }),
    ("ski-removed", |s, _, _, _| remove_ext(s, OID_SKI)), ("ski-wrong", |s, _, _, _| set_ext(s, OID_SKI, ext_ski(&[9; 20]))), ("ski-dup", |s, _, _, _| dup_ext(s, OID_SKI)), ("ski-undecodable", |s, _, _, _| set_ext(s, OID_SKI, raw(OID_SKI, false, vec![0xff]))),
    ("ku-removed", |s, _, _, _| remove_ext(s, OID_KU)), ("ku-extra-flag", |s, _, _, _| set_ext(s, OID_KU, ext_ku(KeyUsages::DigitalSignature | KeyUsages::KeyEncipherment))),
    ("ku-other-flag", |s, _, _, _| set_ext(s, OID_KU, ext_ku(KeyUsages::KeyCertSign.into()))), ("ku-undecodable", |s, _, _, _| set_ext(s, OID_KU, raw(OID_KU, true, vec![0x04, 0x00]))), ("ku-not-critical", |s, _, _, _| { for e in s.exts.iter_mut() { if e.oid == OID_KU { e.critical = false; } } }),
    ("eku-removed", |s, _, _, _| remove_ext(s, OID_EKU)), ("eku-other-role", |s, _, _, _| { let cur = s.exts.iter().find(|e| e.oid == OID_EKU).map(|e| e.value.clone()).unwrap_or_default(); let ds = ext_eku(&[EKU_DS]).value; set_ext(s, OID_EKU, ext_eku(&[if cur == ds { EKU_READER } else { EKU_DS }])) }),
    ("eku-extra-oid", |s, _, _, _| { let cur = s.exts.iter().find(|e| e.oid == OID_EKU).map(|e| e.value.clone()).unwrap_or_default(); let ds = ext_eku(&[EKU_DS]).value; set_ext(s, OID_EKU, ext_eku(&[if cur == ds { EKU_DS } else { EKU_READER }, "1.3.6.1.5.5.7.3.1"])) }),
    ("eku-empty", |s, _, _, _| set_ext(s, OID_EKU, raw(OID_EKU, true, vec![0x30, 0x00]))), ("eku-twice-same", |s, _, _, _| { let cur = s.exts.iter().find(|e| e.oid == OID_EKU).map(|e| e.value.clone()).unwrap_or_default(); let ds = ext_eku(&[EKU_DS]).value; let o = if cur == ds { EKU_DS } else { EKU_READER }; set_ext(s, OID_EKU, ext_eku(&[o, o])) }),
    ("crldp-removed", |s, _, _, _| remove_ext(s, OID_CRLDP)), ("crldp-empty", |s, _, _, _| set_ext(s, OID_CRLDP, raw(OID_CRLDP, false, vec![0x30, 0x00]))),
    ("crldp-reasons", |s, _, _, _| set_ext(s, OID_CRLDP, raw(OID_CRLDP, false, CrlDistributionPoints(vec![dp(true, true, false, false)]).to_der().unwrap()))),
    ("crldp-issuer", |s, _, _, _| set_ext(s, OID_CRLDP, raw(OID_CRLDP, false, CrlDistributionPoints(vec![dp(true, false, true, false)]).to_der().unwrap()))),
    ("crldp-dns-name", |s, _, _, _| set_ext(s, OID_CRLDP, raw(OID_CRLDP, false, CrlDistributionPoints(vec![dp(false, false, false, false)]).to_der().unwrap()))),
    ("crldp-no-name", |s, _, _, _| set_ext(s, OID_CRLDP, raw(OID_CRLDP, false, CrlDistributionPoints(vec![dp(true, false, false, true)]).to_der().unwrap()))),
    ("crldp-good-and-bad", |s, _, _, _| set_ext(s, OID_CRLDP, raw(OID_CRLDP, false, CrlDistributionPoints(vec![dp(true, false, false, false), dp(false, true, true, false)]).to_der().unwrap()))),
    ("ian-removed", |s, _, _, _| remove_ext(s, OID_IAN)), ("ian-dns", |s, _, _, _| set_ext(s, OID_IAN, raw(OID_IAN, false, IssuerAltName(vec![GeneralName::DnsName("example.com".to_string().try_into().unwrap())]).to_der().unwrap()))),
    ("ian-uri", |s, _, _, _| set_ext(s, OID_IAN, raw(OID_IAN, false, IssuerAltName(vec![GeneralName::UniformResourceIdentifier("http://x.y".to_string().try_into().unwrap())]).to_der().unwrap()))),
    ("disallowed-policy-mappings", |s, _, _, _| s.exts.push(raw("2.5.29.33", false, vec![0x30, 0x00]))), ("disallowed-name-constraints-critical", |s, _, _, _| s.exts.push(raw("2.5.29.30", true, vec![0x30, 0x00]))),
    ("disallowed-freshest-crl", |s, _, _, _| s.exts.push(raw("2.5.29.46", false, vec![0x30, 0x00]))), ("disallowed-inhibit-any", |s, _, _, _| s.exts.push(raw("2.5.29.54", false, vec![0x02, 0x01, 0x00]))),
    ("disallowed-policy-constraints", |s, _, _, _| s.exts.push(raw("2.5.29.36", false, vec![0x30, 0x00]))),
    ("unknown-critical", |s, _, _, _| s.exts.push(raw("1.2.3.4.5", true, vec![0x05, 0x00]))), ("unknown-non-critical", |s, _, _, _| s.exts.push(raw("1.2.3.4.6", false, vec![0x05, 0x00]))),
    ("aki-critical", |s, _, _, _| { for e in s.exts.iter_mut() { if e.oid == OID_AKI { e.critical = true; } } }),
    ("aki-removed", |s, _, _, _| remove_ext(s, OID_AKI)), ("aki-wrong", |s, _, _, _| set_ext(s, OID_AKI, ext_aki(&[7; 20]))), ("aki-undecodable", |s, _, _, _| set_ext(s, OID_AKI, raw(OID_AKI, false, vec![0xff]))),
    ("bc-on-leaf", |s, _, _, _| s.exts.push(ext_bc(false, None))),
    // a REPEATED profiled extension: the conformant instance first, a non-critical offending one later (and the other way round)
    ("eku-second-bad", |s, _, _, _| s.exts.push(raw(OID_EKU, false, ext_eku(&["1.3.6.1.5.5.7.3.1"]).value))),
    ("eku-bad-then-good", |s, _, _, _| s.exts.insert(0, raw(OID_EKU, false, ext_eku(&["1.3.6.1.5.5.7.3.1"]).value))),
    ("ku-second-bad", |s, _, _, _| s.exts.push(raw(OID_KU, false, ext_ku(KeyUsages::DigitalSignature | KeyUsages::KeyCertSign).value))),
    ("ski-second-bad", |s, _, _, _| s.exts.push(ext_ski(&[9; 20]))),
    ("crldp-second-bad", |s, _, _, _| s.exts.push(raw(OID_CRLDP, false, CrlDistributionPoints(vec![dp(true, true, true, false)]).to_der().unwrap()))),
    ("ian-second-bad", |s, _, _, _| s.exts.push(raw(OID_IAN, false, IssuerAltName(vec![GeneralName::DnsName("example.com".to_string().try_into().unwrap())]).to_der().unwrap()))),
    ("eku-second-undecodable", |s, _, _, _| s.exts.push(raw(OID_EKU, false, vec![0xff]))),
    ("issuer-name-other", |s, _, _, _| { s.issuer = "CN=someone else,C=US".into(); }),
    ("country-other", |s, _, _, _| { s.subject = s.subject.replace("C=US", "C=CA"); }), ("country-missing", |s, _, _, _| { s.subject = s.subject.replace(",C=US", ""); }),
    ("country-twice", |s, _, _, _| { s.subject = format!("{},C=CA", s.subject); }), ("state-on-leaf", |s, _, _, _| { s.subject = format!("{},ST=NY", s.subject); }),
    // the same attributes as BMPString values (RFC 4514 `#hex` form of the DER value): a string type the crate cannot render as text
    ("country-bmp", |s, _, _, _| { s.subject = s.subject.replace("C=US", "C=#1E0400550053"); }), ("state-bmp-on-leaf", |s, _, _, _| { s.subject = format!("{},ST=#1E04004E0059", s.subject); }),
] }

fn anchor_devs() -> Vec<Dev> { vec![
    ("anchor-expired", |s, _, _, _| { s.not_before = -7200; s.not_after = -60; }), ("anchor-not-yet-valid", |s, _, _, _| { s.not_before = 3600; }),
    ("anchor-ski-removed", |s, _, _, _| remove_ext(s, OID_SKI)), ("anchor-ski-wrong", |s, _, _, _| set_ext(s, OID_SKI, ext_ski(&[9; 20]))),
    ("anchor-ku-leaf-style", |s, _, _, _| set_ext(s, OID_KU, ext_ku(KeyUsages::DigitalSignature.into()))), ("anchor-ku-removed", |s, _, _, _| remove_ext(s, OID_KU)),
    ("anchor-bc-removed", |s, _, _, _| remove_ext(s, OID_BC)), ("anchor-bc-not-ca", |s, _, _, _| set_ext(s, OID_BC, ext_bc(false, Some(0)))), ("anchor-bc-pathlen-none", |s, _, _, _| set_ext(s, OID_BC, ext_bc(true, None))), ("anchor-bc-pathlen-1", |s, _, _, _| set_ext(s, OID_BC, ext_bc(true, Some(1)))),
    ("anchor-crldp-removed", |s, _, _, _| remove_ext(s, OID_CRLDP)), ("anchor-ian-removed", |s, _, _, _| remove_ext(s, OID_IAN)),
    ("anchor-unknown-critical", |s, _, _, _| s.exts.push(raw("1.2.3.4.5", true, vec![0x05, 0x00]))), ("anchor-disallowed", |s, _, _, _| s.exts.push(raw("2.5.29.33", false, vec![0x30, 0x00]))),
    ("anchor-bc-second-bad", |s, _, _, _| s.exts.push(raw(OID_BC, false, ext_bc(false, None).value))),
    ("anchor-ku-second-bad", |s, _, _, _| s.exts.push(raw(OID_KU, false, ext_ku(KeyUsages::DigitalSignature.into()).value))),
    ("anchor-country-missing", |s, _, _, _| { s.subject = s.subject.replace(",C=US", ""); s.issuer = s.subject.clone(); }),
    ("anchor-country-twice", |s, _, _, _| { s.subject = format!("{},C=CA", s.subject); s.issuer = s.subject.clone(); }),
    ("anchor-eku-present-critical", |s, _, _, _| s.exts.push(ext_eku(&[EKU_DS]))),
    ("anchor-country-other", |s, _, _, _| { s.subject = s.subject.replace("C=US", "C=CA"); s.issuer = s.subject.clone(); }),
    ("anchor-country-bmp", |s, _, _, _| { s.subject = s.subject.replace("C=US", "C=#1E0400550053"); s.issuer = s.subject.clone(); }),
    ("anchor-country-bmp-other", |s, _, _, _| { s.subject = s.subject.replace("C=US", "C=#1E0400440045"); s.issuer = s.subject.clone(); }),
    ("anchor-state-bmp", |s, _, _, _| { s.subject = format!("{},ST=#1E04004E0059", s.subject); s.issuer = s.subject.clone(); }),
    ("anchor-state-bmp-other", |s, _, _, _| { s.subject = format!("{},ST=#1E0400430041", s.subject); s.issuer = s.subject.clone(); }),
    ("anchor-state", |s, _, _, _| { s.subject = format!("{},ST=NY", s.subject); s.issuer = s.subject.clone(); }),
] }

struct Case { name: String, leaf: Certificate, anchors: Vec<(Certificate, TrustPurpose)>, keys: Vec<VerifyingKey> }

fn run_case(ctx: &mut Ctx, tag: &str, c: &Case) {
    let now = std::time::SystemTime::now().duration_since(std::time::UNIX_EPOCH).unwrap().as_secs() as i64;
    let reg = TrustAnchorRegistry { anchors: c.anchors.iter().map(|(cert, p)| TrustAnchor { certificate: cert.clone(), purpose: *p }).collect() };
    let Ok(chain) = X5Chain::builder().with_certificate(c.leaf.clone()).and_then(|b| b.build()) else { return };
    for (rs_name, rs) in [("mdl", ValidationRuleset::Mdl), ("aamva", ValidationRuleset::AamvaMdl), ("reader", ValidationRuleset::MdlReaderOneStep)] {
        let mut it = Intern::default();
        let real = err_kinds(&rs.validate(&chain, &reg).errors);
        let leaf_t = abstract_cert(&c.leaf, now, &c.keys, &mut it);
        let anchors_t: Vec<String> = c.anchors.iter().map(|(cert, p)| format!("{}@{}", if matches!(p, TrustPurpose::Iaca) { "iaca" } else { "reader" }, abstract_cert(cert, now, &c.keys, &mut it))).collect();
        let op = format!("x509.validate {rs_name} {leaf_t} {}", anchors_t.join(" "));
        ctx.emit.line("corr", &format!("{tag}:{rs_name}"), op, real.clone(), serde_json::json!({"case": c.name, "ruleset": rs_name, "real": real, "msg_hex": format!("{}-{}", c.name, rs_name)}));
        // Spec(real verdict): "no error" exactly for the chains the declarative Annex B statement accepts
        ctx.emit.line("spec", &format!("spec:{tag}:{rs_name}"), format!("spec.c12 {rs_name} {} {leaf_t} {}", if real == "ok" { "t" } else { "f" }, anchors_t.join(" ")), "true".into(),
            serde_json::json!({"case": c.name, "ruleset": rs_name, "real": real, "leaf_der": hex::encode(c.leaf.to_der().unwrap()), "anchors_der": c.anchors.iter().map(|(a, _)| hex::encode(a.to_der().unwrap())).collect::<Vec<_>>(), "msg_hex": format!("spec-{}-{}", c.name, rs_name)}));
    }
}

pub fn run(ctx: &mut Ctx) {
    let mut rng: rand_chacha::ChaCha8Rng = rand::SeedableRng::seed_from_u64(ctx.rng.gen());
    let root_key = world::key_from(&mut rng); let leaf_key = world::key_from(&mut rng); let other_key = world::key_from(&mut rng);
    let keys: Vec<VerifyingKey> = [&root_key, &leaf_key, &other_key].iter().map(|k| *k.verifying_key()).collect();
    for (role, eku, purpose) in [("ds", EKU_DS, TrustPurpose::Iaca), ("reader", EKU_READER, TrustPurpose::ReaderCa)] {
        let root_name = "CN=root,C=US"; let leaf_name = "CN=leaf,C=US";
        let base_root = world::root_spec(root_name, &root_key);
        let base_leaf = world::leaf_spec(leaf_name, root_name, &leaf_key, &root_key, eku);
        let mk = |ls: &CertSpec, rs: &CertSpec, sign_leaf_with: &SigningKey| (world::build_cert(ls, &leaf_key, sign_leaf_with), world::build_cert(rs, &root_key, &root_key));
        // conformant
        { let (l, r) = mk(&base_leaf, &base_root, &root_key); run_case(ctx, &format!("{role}:conformant"), &Case { name: "conformant".into(), leaf: l, anchors: vec![(r, purpose)], keys: keys.clone() }); }
        // single deviations of the leaf
        let ldevs = leaf_devs(); let adevs = anchor_devs();
        for (name, f) in &ldevs {
            let mut ls = base_leaf.clone(); f(&mut ls, &leaf_key, &root_key, &mut rng);
            let (l, r) = mk(&ls, &base_root, &root_key);
            run_case(ctx, &format!("{role}:leaf-single"), &Case { name: name.to_string(), leaf: l, anchors: vec![(r, purpose)], keys: keys.clone() });
        }
        // leaf signed by another key
        { let (l, r) = mk(&base_leaf, &base_root, &other_key); run_case(ctx, &format!("{role}:leaf-single"), &Case { name: "signed-by-other-key".into(), leaf: l, anchors: vec![(r, purpose)], keys: keys.clone() }); }
        // single deviations of the anchor (leaf's AKI/issuer follow the anchor's key/name so that anchoring still holds where it should)
        for (name, f) in &adevs {
            let mut rs = base_root.clone(); f(&mut rs, &root_key, &root_key, &mut rng);
            let mut ls = base_leaf.clone(); ls.issuer = rs.subject.clone();
            let (l, r) = mk(&ls, &rs, &root_key);
            run_case(ctx, &format!("{role}:anchor-single"), &Case { name: name.to_string(), leaf: l, anchors: vec![(r, purpose)], keys: keys.clone() });
        }
        // pairs (sampled in quick, all in thorough)
        for (i, (n1, f1)) in ldevs.iter().enumerate() { for (j, (n2, f2)) in ldevs.iter().enumerate() {
            if j <= i { continue; }
            if !ctx.thorough && !rng.gen_bool(0.05) { continue; }
            let mut ls = base_leaf.clone(); f1(&mut ls, &leaf_key, &root_key, &mut rng); f2(&mut ls, &leaf_key, &root_key, &mut rng);
            let (l, r) = mk(&ls, &base_root, &root_key);
            run_case(ctx, &format!("{role}:leaf-pair"), &Case { name: format!("{n1}+{n2}"), leaf: l, anchors: vec![(r, purpose)], keys: keys.clone() });
        } }
        for (n1, f1) in ldevs.iter() { for (n2, f2) in adevs.iter() {
            if !ctx.thorough && !rng.gen_bool(0.04) { continue; }
            let mut rs = base_root.clone(); f2(&mut rs, &root_key, &root_key, &mut rng);
            let mut ls = base_leaf.clone(); ls.issuer = rs.subject.clone(); f1(&mut ls, &leaf_key, &root_key, &mut rng);
            let (l, r) = mk(&ls, &rs, &root_key);
            run_case(ctx, &format!("{role}:leaf+anchor-pair"), &Case { name: format!("{n1}+{n2}"), leaf: l, anchors: vec![(r, purpose)], keys: keys.clone() });
        } }
        // named leaf+anchor pairs that are always run: the attribute missing from / present in BOTH certificates
        for (n1, n2) in [("country-missing", "anchor-country-missing"), ("state-on-leaf", "anchor-state"), ("country-other", "anchor-country-other"), ("country-twice", "anchor-country-twice"), ("country-missing", "anchor-state"),
                         ("country-bmp", "anchor-country-bmp"), ("country-bmp", "anchor-country-bmp-other"), ("country-bmp", "anchor-country-other"),
                         ("state-bmp-on-leaf", "anchor-state-bmp"), ("state-bmp-on-leaf", "anchor-state-bmp-other"), ("state-on-leaf", "anchor-state-bmp")] {
            let f1 = ldevs.iter().find(|d| d.0 == n1).unwrap().1; let f2 = adevs.iter().find(|d| d.0 == n2).unwrap().1;
            let mut rs = base_root.clone(); f2(&mut rs, &root_key, &root_key, &mut rng);
            let mut ls = base_leaf.clone(); ls.issuer = rs.subject.clone(); f1(&mut ls, &leaf_key, &root_key, &mut rng);
            let (l, r) = mk(&ls, &rs, &root_key);
            run_case(ctx, &format!("{role}:named-pair"), &Case { name: format!("{n1}+{n2}"), leaf: l, anchors: vec![(r, purpose)], keys: keys.clone() });
        }
        // an anchor whose key is NOT a P-256 key (a P-384 root): a leaf naming it (issuer name, authority key identifier) cannot be
        // verified under it and is not anchored, whoever signed it
        { let point: Vec<u8> = std::iter::once(4u8).chain((0..96).map(|i| (i * 5 + 1) as u8)).collect();
          let (r, ski) = world::with_p384_key(&base_root, &point, &root_key);
          let mut ls = base_leaf.clone(); for e in ls.exts.iter_mut() { if e.oid == world::OID_AKI { *e = world::ext_aki(&ski); } }
          for (signer_name, signer) in [("signed-by-itself", &leaf_key), ("signed-by-the-p256-root-key", &root_key), ("signed-by-another-key", &other_key)] {
              let l = world::build_cert(&ls, &leaf_key, signer);
              run_case(ctx, &format!("{role}:named-pair"), &Case { name: format!("anchor-with-p384-key+leaf-{signer_name}"), leaf: l, anchors: vec![(r.clone(), purpose)], keys: keys.clone() }); } }
        // registries: purposes mixed, several candidates (first one deviating), none
        let (l, good) = mk(&base_leaf, &base_root, &root_key);
        let wrong_purpose = if matches!(purpose, TrustPurpose::Iaca) { TrustPurpose::ReaderCa } else { TrustPurpose::Iaca };
        let other_root = world::build_cert(&world::root_spec("CN=other,C=US", &other_key), &other_key, &other_key);
        let regs: Vec<(&str, Vec<(Certificate, TrustPurpose)>)> = vec![
            ("empty", vec![]), ("wrong-purpose-only", vec![(good.clone(), wrong_purpose)]), ("unrelated-only", vec![(other_root.clone(), purpose)]),
            ("unrelated-then-good", vec![(other_root.clone(), purpose), (good.clone(), purpose)]), ("wrong-purpose-then-good", vec![(good.clone(), wrong_purpose), (good.clone(), purpose)]),
            ("good-twice", vec![(good.clone(), purpose), (good.clone(), purpose)]),
        ];
        for (n, a) in regs { run_case(ctx, &format!("{role}:registry"), &Case { name: n.into(), leaf: l.clone(), anchors: a, keys: keys.clone() }); }
        for (name, f) in &adevs {
            let mut rs = base_root.clone(); f(&mut rs, &root_key, &root_key, &mut rng);
            if rs.subject != base_root.subject { continue; }
            let bad = world::build_cert(&rs, &root_key, &root_key);
            run_case(ctx, &format!("{role}:registry"), &Case { name: format!("first-candidate-{name}-then-good"), leaf: l.clone(), anchors: vec![(bad.clone(), purpose), (good.clone(), purpose)], keys: keys.clone() });
            run_case(ctx, &format!("{role}:registry"), &Case { name: format!("good-then-{name}"), leaf: l.clone(), anchors: vec![(good.clone(), purpose), (bad, purpose)], keys: keys.clone() });
        }
    }
}
