//! C10: embedded (tag 24) items, issuerAuth bytes and certificate bytes survive decode/encode,
//! storage cycles and transfer.  Items are produced by a non-canonical CBOR emitter.
use crate::gen::{gen_text, gen_value, to_bytes};
use crate::sess::{self, MDL, NS};
use crate::world::{self, Pki};
use crate::{hex_or_dash, Ctx};
use ciborium::Value;
use isomdl::cbor;
use isomdl::cose::MaybeTagged;
use isomdl::definitions::device_request::ItemsRequest;
use isomdl::definitions::helpers::{NonEmptyMap, Tag24};
use isomdl::definitions::x509::trust_anchor::TrustAnchorRegistry;
use isomdl::definitions::{DigestAlgorithm, IssuerSignedItem, SessionData};
use isomdl::presentation::device::{self, Document};
use isomdl::presentation::{reader, Stringify};
use rand::Rng;

/// head with a chosen (possibly non-minimal) width: w = 0 (in the initial byte), 1, 2, 4, 8
fn head(mt: u8, n: u64, w: u8, out: &mut Vec<u8>) {
    match w { 0 => out.push(mt << 5 | n as u8), 1 => { out.push(mt << 5 | 24); out.push(n as u8) }, 2 => { out.push(mt << 5 | 25); out.extend_from_slice(&(n as u16).to_be_bytes()) },
              4 => { out.push(mt << 5 | 26); out.extend_from_slice(&(n as u32).to_be_bytes()) }, _ => { out.push(mt << 5 | 27); out.extend_from_slice(&n.to_be_bytes()) } }
}
fn min_w(n: u64) -> u8 { if n < 24 { 0 } else if n < 256 { 1 } else if n < 65536 { 2 } else if n < (1 << 32) { 4 } else { 8 } }
fn pick_w(rng: &mut impl Rng, n: u64, style: u8) -> u8 {
    let m = min_w(n);
    if style & 1 == 0 { return m; }
    let opts: Vec<u8> = [0u8, 1, 2, 4, 8].into_iter().filter(|w| *w >= m).collect();
    opts[rng.gen_range(0..opts.len())]
}

/// style bits: 1 non-minimal heads, 2 indefinite-length strings, 4 indefinite arrays/maps, 8 permuted map keys
pub fn nc_encode(v: &Value, rng: &mut impl Rng, style: u8, out: &mut Vec<u8>) {
    match v {
        Value::Integer(i) => { let i: i128 = (*i).into(); if i >= 0 { let w = pick_w(rng, i as u64, style); head(0, i as u64, w, out) } else { let n = (-1 - i) as u64; let w = pick_w(rng, n, style); head(1, n, w, out) } }
        Value::Bytes(b) => nc_string(2, b, rng, style, out),
        Value::Text(s) => nc_string(3, s.as_bytes(), rng, style, out),
        Value::Array(a) => {
            if style & 4 != 0 && rng.gen_bool(0.5) { out.push(0x9f); for x in a { nc_encode(x, rng, style, out); } out.push(0xff); }
            else { let w = pick_w(rng, a.len() as u64, style); head(4, a.len() as u64, w, out); for x in a { nc_encode(x, rng, style, out); } }
        }
        Value::Map(m) => {
            let mut entries: Vec<&(Value, Value)> = m.iter().collect();
            if style & 8 != 0 { use rand::seq::SliceRandom; entries.shuffle(rng); }
            if style & 4 != 0 && rng.gen_bool(0.5) { out.push(0xbf); for (k, x) in entries { nc_encode(k, rng, style, out); nc_encode(x, rng, style, out); } out.push(0xff); }
            else { let w = pick_w(rng, m.len() as u64, style); head(5, m.len() as u64, w, out); for (k, x) in entries { nc_encode(k, rng, style, out); nc_encode(x, rng, style, out); } }
        }
        Value::Tag(t, inner) => { let w = pick_w(rng, *t, style); head(6, *t, w, out); nc_encode(inner, rng, style, out) }
        other => out.extend_from_slice(&to_bytes(other)),
    }
}
fn nc_string(mt: u8, b: &[u8], rng: &mut impl Rng, style: u8, out: &mut Vec<u8>) {
    if style & 2 != 0 && rng.gen_bool(0.5) && mt == 2 {
        // chunked byte string (text chunks would have to split on character boundaries: bytes only)
        out.push(mt << 5 | 31);
        let mut i = 0;
        while i < b.len() { let n = rng.gen_range(1..=(b.len() - i).min(7)); head(mt, n as u64, min_w(n as u64), out); out.extend_from_slice(&b[i..i + n]); i += n; }
        out.push(0xff);
    } else { let w = pick_w(rng, b.len() as u64, style); head(mt, b.len() as u64, w, out); out.extend_from_slice(b); }
}

fn no_float(v: &Value) -> bool { match v { Value::Float(_) => false, Value::Array(a) => a.iter().all(no_float), Value::Map(m) => m.iter().all(|(k, x)| no_float(k) && no_float(x)), Value::Tag(_, i) => no_float(i), _ => true } }

/// one abstract item, encoded in some non-canonical way; with `extra`, unknown map entries are added
fn gen_item_bytes(rng: &mut rand_chacha::ChaCha8Rng, ident: &str, id: u32, style: u8, extra: bool) -> (Vec<u8>, Value) {
    let mut value = gen_value(rng, 2);
    while !no_float(&value) { value = gen_value(rng, 2); }
    let mut entries = vec![(Value::Text("digestID".into()), Value::Integer(id.into())), (Value::Text("random".into()), Value::Bytes((0..rng.gen_range(16..40)).map(|_| rng.gen()).collect())),
        (Value::Text("elementIdentifier".into()), Value::Text(ident.into())), (Value::Text("elementValue".into()), value.clone())];
    if extra { entries.push((Value::Text(format!("x-unknown-{}", gen_text(rng, 4))), gen_value(rng, 0))); entries.push((Value::Text("zz".into()), Value::Bool(true)));
        // unknown entries with LONG keys too (another issuer's extension names; every length class of a text head)
        if rng.gen_bool(0.5) { let n = [24usize, 65, 100, 255, 256, 1000, 4000][rng.gen_range(0..7)]; entries.push((Value::Text("k".repeat(n)), Value::Integer(1.into()))); } }
    let mut out = vec![];
    nc_encode(&Value::Map(entries), rng, style, &mut out);
    (out, value)
}

fn wire_tag24(inner: &[u8]) -> Vec<u8> { let mut o = vec![0xd8, 0x18]; head(2, inner.len() as u64, min_w(inner.len() as u64), &mut o); o.extend_from_slice(inner); o }

/// (header length, content length) of the DER TLV at the start of `der`
fn tlv(der: &[u8]) -> (usize, usize) {
    match der[1] { n if n < 0x80 => (2, n as usize), 0x81 => (3, der[2] as usize), _ => (4, ((der[2] as usize) << 8) | der[3] as usize) }
}
fn wrap(tag: u8, content: &[u8]) -> Vec<u8> {
    let mut out = vec![tag];
    match content.len() { n if n < 0x80 => out.push(n as u8), n if n < 0x100 => out.extend([0x81, n as u8]), n => out.extend([0x82, (n >> 8) as u8, n as u8]) }
    out.extend_from_slice(content); out
}
/// A v1 certificate whose issuer wrote the DEFAULT version out (`[0] EXPLICIT INTEGER 0`) and signed
/// what it wrote: not canonical DER, accepted by X.509 parsers (x509-cert included), and changed by
/// any decode/re-encode of the certificate.  Built from the fields of `cert` (extensions dropped).
fn explicit_version_v1(cert: &x509_cert::Certificate, signer: &p256::ecdsa::SigningKey) -> Vec<u8> {
    use der::Encode; use p256::ecdsa::signature::Signer;
    let der = cert.to_der().unwrap();
    let (h, _) = tlv(&der); let body = &der[h..];
    let (th, tl) = tlv(body); let tbs = &body[th..th + tl]; let rest = &body[th + tl..];
    let (ah, al) = tlv(rest); let alg = &rest[..ah + al];
    // walk the TBS fields: [0] version, serial, signature, issuer, validity, subject, spki, [3] extensions
    let mut fields: Vec<&[u8]> = vec![]; let mut cur = tbs;
    while !cur.is_empty() { let (fh, fl) = tlv(cur); fields.push(&cur[..fh + fl]); cur = &cur[fh + fl..]; }
    let mut content = vec![0xa0, 0x03, 0x02, 0x01, 0x00];
    for f in fields.iter().filter(|f| f[0] != 0xa0 && f[0] != 0xa3) { content.extend_from_slice(f); }
    let tbs2 = wrap(0x30, &content);
    let sig: p256::ecdsa::Signature = signer.sign(&tbs2);
    let mut bits = vec![0x00]; bits.extend_from_slice(sig.to_der().as_bytes());
    let mut out = tbs2; out.extend_from_slice(alg); out.extend(wrap(0x03, &bits));
    wrap(0x30, &out)
}

pub fn run(ctx: &mut Ctx) {
    let pki = Pki::new(&mut ctx.rng);
    let mut rng: rand_chacha::ChaCha8Rng = rand::SeedableRng::seed_from_u64(ctx.rng.gen());
    let key = world::key_from(&mut rng);
    // 1. single embedded items in every non-canonical style (each form alone, then mixed)
    let n = if ctx.thorough { 20_000 } else { 400 };
    for k in 0..n {
        let style: u8 = if k < 16 { k as u8 } else { rng.gen_range(0..16) };
        let extra = k % 3 == 0;
        let ident = format!("el{}", gen_text(&mut rng, 6));
        let did = rng.gen_range(0..1u32 << 31);
        let (inner, _) = gen_item_bytes(&mut rng, &ident, did, style, extra);
        let wire = wire_tag24(&inner);
        let parsed: Result<Tag24<IssuerSignedItem>, _> = cbor::from_slice(&wire);
        let real = match &parsed {
            Err(_) => "rejected".to_string(),
            Ok(t) => {
                let re = cbor::to_vec(t).unwrap();
                let it = t.as_ref();
                let idv: Value = cbor::into_value(it.digest_id).unwrap(); let id: i128 = idv.as_integer().unwrap().into();
                format!("reemit={} id={} random={} ident={} value={}", hex_or_dash(&re), id, hex_or_dash(it.random.as_ref()), hex_or_dash(it.element_identifier.as_bytes()), hex_or_dash(&to_bytes(&it.element_value)))
            }
        };
        let case = serde_json::json!({"style_bits": style, "extra_entries": extra, "msg_hex": hex::encode(&wire)});
        ctx.emit.line("corr", &format!("item:style{}", style.min(16)), format!("c10.tag24 {}", hex::encode(&wire)), real.clone(), case.clone());
        // Spec(real): re-emitted bytes are the received bytes, and cycles keep them
        let mut ok = parsed.is_ok() && real.starts_with(&format!("reemit={} ", hex::encode(&wire)));
        if let Ok(t) = parsed {
            let mut cur = t;
            // (an item that cannot be read back after a cycle is the plainest loss: recorded, not a harness crash)
            for _ in 0..(if ctx.thorough { 10 } else { 3 }) { let b = cbor::to_vec(&cur).unwrap(); match cbor::from_slice::<Tag24<IssuerSignedItem>>(&b) { Ok(c) => { cur = c; ok &= cur.inner_bytes == inner; } Err(_) => { ok = false; break; } } }
            // from_bytes keeps them too
            ok &= Tag24::<IssuerSignedItem>::from_bytes(inner.clone()).map(|t| t.inner_bytes == inner).unwrap_or(false);
        }
        ctx.emit.line("spec", "spec:item:bytes-preserved", format!("spec.eq {} true", ok), "true".into(), case);
    }
    // 1b. every public path that hands a held item back must hand back the held bytes: age attestation selection
    for k in 0..(if ctx.thorough { 2000 } else { 100 }) {
        let mut m: Option<NonEmptyMap<String, Tag24<IssuerSignedItem>>> = None;
        let mut held: Vec<Vec<u8>> = vec![];
        for age in [18u32, 21, 65] {
            let ident = format!("age_over_{age}");
            let val = Value::Bool(age <= 21);
            let entries = vec![(Value::Text("digestID".into()), Value::Integer(age.into())), (Value::Text("random".into()), Value::Bytes(vec![k as u8; 16])),
                (Value::Text("elementIdentifier".into()), Value::Text(ident.clone())), (Value::Text("elementValue".into()), val), (Value::Text("zz-extra".into()), Value::Integer(1.into()))];
            let mut inner = vec![]; let st = rng.gen_range(1..16);
            nc_encode(&Value::Map(entries), &mut rng, st, &mut inner);
            let Ok(t) = Tag24::<IssuerSignedItem>::from_bytes(inner.clone()) else { ctx.emit.line("spec", "spec:item:accepted", "spec.eq rejected accepted".into(), "true".into(), serde_json::json!({"msg_hex": hex::encode(&inner)})); continue };
            held.push(inner);
            match m.as_mut() { None => m = Some(NonEmptyMap::new(ident, t)), Some(mm) => { mm.insert(ident, t); } }
        }
        let req = format!("age_over_{}", [10, 18, 20, 21, 30, 65, 70][k % 7]);
        let r = isomdl::presentation::device::nearest_age_attestation(req.clone(), m.unwrap());
        let ok = match r { Ok(Some(t)) => held.contains(&t.inner_bytes), Ok(None) => true, Err(_) => false };
        ctx.emit.line("spec", "spec:item:age-attestation-returns-held-bytes", format!("spec.eq {} true", ok), "true".into(), serde_json::json!({"requested": req, "msg_hex": format!("age{k}")}));
    }
    // 2. whole documents: storage cycles and transfer in a real session
    let sessions = if ctx.thorough { 150 } else { 12 };
    for s in 0..sessions {
        let mdoc = world::issue(&pki, MDL, sess::default_ns_values(), DigestAlgorithm::SHA256, s % 2 == 0, &key).unwrap();
        let mut mdoc = mdoc;
        let doc0 = Document::from(mdoc.clone());
        // issuerAuth with a non-canonically encoded protected header (alg -7 as a 2-byte negative integer) and tagged/untagged forms
        let ia_v: Value = cbor::into_value(doc0.issuer_auth.clone()).unwrap();
        let mut arr = match ia_v { Value::Array(a) => a, Value::Tag(_, b) => match *b { Value::Array(a) => a, _ => vec![] }, _ => vec![] };
        let prot: Vec<u8> = match s % 3 { 0 => vec![0xa1, 0x01, 0x38, 0x06], 1 => vec![0xbf, 0x01, 0x26, 0xff], _ => vec![0xa1, 0x01, 0x26] };
        arr[0] = Value::Bytes(prot.clone());
        // unprotected header: sometimes a further parameter (kid) next to the x5chain, sometimes the document
        // signer certificate in a form that does not survive a DER decode/re-encode, sometimes both
        if let Some(Value::Map(un)) = arr.get_mut(1) {
            if s % 5 == 1 || s % 5 == 3 {
                let odd = explicit_version_v1(&pki.ds, &pki.iaca_key);
                let accepted = isomdl::definitions::x509::X5Chain::from_cbor(Value::Bytes(odd.clone())).is_ok();
                ctx.emit.line("spec", "spec:x5chain:explicit-default-version-accepted", format!("spec.eq {} true", accepted), "true".into(), serde_json::json!({"msg_hex": hex::encode(&odd)}));
                for (k, v) in un.iter_mut() { if k.as_integer().map(i128::from) == Some(33) { *v = Value::Bytes(odd.clone()); } }
            }
            if s % 5 == 1 || s % 5 == 2 { un.push((Value::Integer(4.into()), Value::Bytes(vec![0x6b, 0x31]))); }
            // a chain of two (document signer, IACA) and a chain given as an array of one
            if s % 5 == 4 || s % 5 == 0 { use der::Encode; for (k, v) in un.iter_mut() { if k.as_integer().map(i128::from) == Some(33) {
                let first = v.as_bytes().cloned().unwrap_or_default();
                *v = if s % 5 == 4 { Value::Array(vec![Value::Bytes(first), Value::Bytes(pki.iaca.to_der().unwrap())]) } else { Value::Array(vec![Value::Bytes(first)]) }; } } }
        }
        // the MSO payload in a foreign encoding too (a different issuer's encoder): #6.24(bstr) with a shortest head around non-canonical MSO bytes
        if s % 4 != 3 {
            if let Some(Value::Bytes(pl)) = arr.get(2).cloned() {
                if let Ok(Value::Tag(24, inner)) = cbor::from_slice::<Value>(&pl) {
                    if let Some(mso_bytes) = inner.as_bytes() {
                        let mso_v: Value = cbor::from_slice(mso_bytes).unwrap();
                        let mut nc = vec![]; let st = rng.gen_range(1..16) | 8;
                        nc_encode(&mso_v, &mut rng, st, &mut nc);
                        arr[2] = Value::Bytes(wire_tag24(&nc));
                    }
                }
            }
        }
        let ia_val = if s % 2 == 0 { Value::Tag(18, Box::new(Value::Array(arr.clone()))) } else { Value::Array(arr.clone()) };
        let ia_bytes = to_bytes(&ia_val);
        let ia: MaybeTagged<coset::CoseSign1> = match cbor::from_slice(&ia_bytes) { Ok(x) => x, Err(_) => { ctx.emit.line("spec", "spec:issuerAuth:accepted", "spec.eq rejected accepted".into(), "true".into(), serde_json::json!({"msg_hex": hex::encode(&ia_bytes)})); continue } };
        // the holder receives the mdoc with this issuerAuth and imports it (`From<Mdoc> for Document`)
        mdoc.issuer_auth = ia;
        let mut doc = Document::from(mdoc);
        // items in foreign encodings
        let mut items: Vec<(String, Vec<u8>)> = vec![];
        let mut em: Option<NonEmptyMap<String, Tag24<IssuerSignedItem>>> = None;
        for j in 0..rng.gen_range(2..6) {
            let ident = format!("e{j}");
            let st = rng.gen_range(1..16);
            let (inner, _) = gen_item_bytes(&mut rng, &ident, j, st, j % 2 == 0);
            let Ok(t) = Tag24::<IssuerSignedItem>::from_bytes(inner.clone()) else { ctx.emit.line("spec", "spec:item:accepted", "spec.eq rejected accepted".into(), "true".into(), serde_json::json!({"msg_hex": hex::encode(&inner)})); continue };
            match em.as_mut() { None => em = Some(NonEmptyMap::new(ident.clone(), t)), Some(m) => { m.insert(ident.clone(), t); } }
            items.push((ident, inner));
        }
        let Some(em) = em else { continue };
        doc.namespaces = NonEmptyMap::new(NS.to_string(), em);
        // a second namespace holding items under the SAME identifiers (as `sex` is in the core and the AAMVA namespace), other bytes
        const NS2: &str = "org.iso.18013.5.1.aamva";
        let mut items2: Vec<(String, Vec<u8>)> = vec![];
        if s % 2 == 0 {
            let mut em2: Option<NonEmptyMap<String, Tag24<IssuerSignedItem>>> = None;
            for (j, (ident, _)) in items.iter().enumerate().take(2) {
                let st = rng.gen_range(1..16);
                let (inner, _) = gen_item_bytes(&mut rng, ident, 1000 + j as u32, st, j % 2 == 1);
                let Ok(t) = Tag24::<IssuerSignedItem>::from_bytes(inner.clone()) else { continue };
                match em2.as_mut() { None => em2 = Some(NonEmptyMap::new(ident.clone(), t)), Some(m) => { m.insert(ident.clone(), t); } }
                items2.push((ident.clone(), inner));
            }
            if let Some(em2) = em2 { doc.namespaces.insert(NS2.to_string(), em2); }
        }
        // storage cycles
        let mut cur = doc.clone();
        let mut stored_ok = true;
        for _ in 0..(if ctx.thorough { 8 } else { 3 }) {
            cur = match Document::parse(cur.stringify().unwrap()) { Ok(d) => d, Err(_) => { stored_ok = false; break } };
            for (ident, inner) in &items { stored_ok &= cur.namespaces.get(NS).and_then(|m| m.get(ident)).map(|t| &t.inner_bytes == inner).unwrap_or(false); }
            let v: Value = cbor::into_value(cur.issuer_auth.clone()).unwrap();
            let a = match v { Value::Array(a) => a, Value::Tag(_, b) => match *b { Value::Array(a) => a, _ => vec![] }, _ => vec![] };
            stored_ok &= a.first().and_then(|p| p.as_bytes()) == Some(&prot) && a.get(2) == arr.get(2) && a.get(3) == arr.get(3);
            let x5 = |arr: &Vec<Value>| arr.get(1).and_then(|u| u.as_map()).and_then(|m| m.iter().find(|(k, _)| k.as_integer().map(i128::from) == Some(33)).map(|(_, v)| v.clone()));
            stored_ok &= x5(&a) == x5(&arr);
        }
        ctx.emit.line("spec", "spec:document:storage-cycles", format!("spec.eq {} true", stored_ok), "true".into(), serde_json::json!({"session": s, "items": items.len()}));
        if !stored_ok { continue; }
        // transfer
        let lost = |ctx: &mut Ctx, what: &str| ctx.emit.line("spec", "spec:document:transfer", "spec.eq false true".into(), "true".into(), serde_json::json!({"session": s, "stored state does not load": what}));
        let docs = NonEmptyMap::new(MDL.to_string(), cur);
        let init = device::SessionManagerInit::initialise(docs, None, None).unwrap();
        let Ok(init) = device::SessionManagerInit::parse(init.stringify().unwrap()) else { lost(ctx, "SessionManagerInit"); continue };
        let (eng, qr) = init.qr_engagement().unwrap();
        let (_rdr, est, _) = reader::SessionManager::establish_session(qr, sess::simple_namespaces(&["e0"]), TrustAnchorRegistry::default()).unwrap();
        let (mut dev, _) = eng.process_session_establishment(cbor::from_slice(&est).unwrap(), TrustAnchorRegistry::default()).unwrap();
        dev = match device::SessionManager::parse(dev.stringify().unwrap()) { Ok(d) => d, Err(_) => { lost(ctx, "SessionManager"); continue } };
        let elems: Vec<String> = items.iter().map(|(i, _)| i.clone()).collect();
        let er: Vec<&str> = elems.iter().map(|s| s.as_str()).collect();
        let mut req_ns = sess::simple_namespaces(&er);
        let mut permitted = sess::permit_all(&[MDL], &er);
        if !items2.is_empty() {
            let mut de: Option<isomdl::definitions::device_request::DataElements> = None;
            for (i, _) in &items2 { match de.as_mut() { None => de = Some(NonEmptyMap::new(i.clone(), false)), Some(d) => { d.insert(i.clone(), false); } } }
            req_ns.insert("org.iso.18013.5.1.aamva".to_string(), de.unwrap());
            permitted.get_mut(MDL).unwrap().insert("org.iso.18013.5.1.aamva".to_string(), items2.iter().map(|(i, _)| i.clone()).collect());
        }
        let reqs = vec![ItemsRequest { doc_type: MDL.into(), namespaces: req_ns, request_info: None }];
        dev.prepare_response(&reqs, permitted);
        dev = match device::SessionManager::parse(dev.stringify().unwrap()) { Ok(d) => d, Err(_) => { lost(ctx, "SessionManager while signing"); continue } };
        while dev.get_next_signature_payload().is_some() { dev.submit_next_signature(vec![1; 64]).unwrap(); }
        let Some(msg) = dev.retrieve_response() else { continue };
        let sd: SessionData = cbor::from_slice(&msg).unwrap();
        let p = sess::peek_device(&dev);
        let pt = sess::aes_dec(&p.sk_device, &sess::iv_bytes(false, p.dev_ctr), sd.data.unwrap().as_ref()).unwrap();
        let resp: Value = cbor::from_slice(&pt).unwrap();
        // dig out documents[0].issuerSigned
        let get = |v: &Value, k: &str| -> Option<Value> { v.as_map()?.iter().find(|(kk, _)| kk.as_text() == Some(k)).map(|(_, x)| x.clone()) };
        let is = get(&resp, "documents").and_then(|d| d.as_array().and_then(|a| a.first().cloned())).and_then(|d| get(&d, "issuerSigned"));
        let mut sent_ok = is.is_some();
        if let Some(is) = &is {
            let sent_items: Vec<Vec<u8>> = get(is, "nameSpaces").and_then(|n| get(&n, NS)).and_then(|a| a.as_array().cloned()).unwrap_or_default().into_iter()
                .filter_map(|t| match t { Value::Tag(24, b) => b.as_bytes().cloned(), _ => None }).collect();
            for (_, inner) in &items { sent_ok &= sent_items.contains(inner); }
            sent_ok &= sent_items.len() == items.len();
            // ... and each namespace carries ITS OWN items
            let sent2: Vec<Vec<u8>> = get(is, "nameSpaces").and_then(|n| get(&n, "org.iso.18013.5.1.aamva")).and_then(|a| a.as_array().cloned()).unwrap_or_default().into_iter()
                .filter_map(|t| match t { Value::Tag(24, b) => b.as_bytes().cloned(), _ => None }).collect();
            for (_, inner) in &items2 { sent_ok &= sent2.contains(inner); }
            sent_ok &= sent2.len() == items2.len();
            if let Some(iav) = get(is, "issuerAuth") {
                let iab = to_bytes(&iav);
                // model view of the transferred issuerAuth vs the one put in
                let a = match &iav { Value::Array(a) => a.clone(), Value::Tag(_, b) => match &**b { Value::Array(a) => a.clone(), _ => vec![] }, _ => vec![] };
                let untagged = to_bytes(&Value::Array(a.clone()));
                let x5 = arr.get(1).and_then(|u| u.as_map()).and_then(|m| m.iter().find(|(k, _)| k.as_integer().map(|i| i128::from(i)) == Some(33)).map(|(_, v)| hex::encode(to_bytes(v)))).unwrap_or("none".into());
                let expect = format!("protected={} payload={} signature={} x5chain={}", hex::encode(&prot), arr.get(2).and_then(|p| p.as_bytes()).map(hex::encode).unwrap_or("nil".into()),
                    arr.get(3).and_then(|p| p.as_bytes()).map(hex::encode).unwrap_or_default(), x5);
                ctx.emit.line("corr", "issuerAuth:transferred", format!("c10.cose {}", hex::encode(&untagged)), expect, serde_json::json!({"msg_hex": hex::encode(&iab)}));
                // the same four parts compared directly (protected bytes, payload, signature, x5chain value)
                let x5v = |arr: &Vec<Value>| arr.get(1).and_then(|u| u.as_map()).and_then(|m| m.iter().find(|(k, _)| k.as_integer().map(i128::from) == Some(33)).map(|(_, v)| v.clone()));
                sent_ok &= a.first() == arr.first() && a.get(2) == arr.get(2) && a.get(3) == arr.get(3) && x5v(&a) == x5v(&arr);
            } else { sent_ok = false; }
        }
        ctx.emit.line("spec", "spec:document:transfer", format!("spec.eq {} true", sent_ok), "true".into(), serde_json::json!({"session": s, "items": items.len()}));
    }
}
